#!/usr/bin/env python3
"""seedeval.py <prop> <change_dir> <name>: confirm a seeded change in a scratch worktree (applies, builds, existing tests of the
touched packages pass, demo fails with / passes without the change), then apply it to /repo, run the property's quick check, undo it,
and store everything under /verif/seeded/<name>/."""
import json, os, subprocess, sys, shutil, re, time
prop, cdir, name = sys.argv[1], sys.argv[2], sys.argv[3]
checks = sys.argv[4:] or [prop]
if subprocess.run('git -C /repo status --porcelain', shell=True, capture_output=True, text=True).stdout.strip():
    sys.exit('refusing: /repo has uncommitted changes (the evaluation ends with git checkout -- .)')
ENV = dict(os.environ, GOFLAGS="-mod=mod", GOPROXY="off", GOSUMDB="off")
def sh(cmd, cwd=None, timeout=1800):
    r = subprocess.run(cmd, shell=True, cwd=cwd, env=ENV, stdout=subprocess.PIPE, stderr=subprocess.STDOUT, text=True, timeout=timeout)
    return r.returncode, r.stdout
WT = "/var/tmp/seedcheck"
sh("git -C /repo worktree remove --force %s" % WT)
rc, out = sh("git -C /repo worktree add -q --detach %s HEAD" % WT)
assert rc == 0, out
patch = os.path.join(cdir, "patch.diff")
demo = os.path.join(cdir, "zz_seed_demo_test.go")
pkg = open(os.path.join(cdir, "DEMO_PKG.txt")).read().strip().lstrip("./")
run = open(os.path.join(cdir, "DEMO_RUN.txt")).read().strip().splitlines()[-1]
m = re.search(r"go test.*", run)
run = m.group(0) if m else run
meta = {"property": prop, "name": name, "source": cdir, "demo_pkg": pkg, "demo_run": run}
touched = sorted({os.path.dirname(l[6:]) for l in open(patch) if l.startswith("+++ b/")})
meta["touched_packages"] = touched
shutil.copy(demo, os.path.join(WT, pkg, "zz_seed_demo_test.go"))
rc, out = sh(run, cwd=WT)
meta["demo_without_change"] = "pass" if rc == 0 else "FAIL"
rc, out = sh("git apply %s" % patch, cwd=WT)
meta["applies"] = rc == 0
rc, out = sh("go build ./...", cwd=WT)
meta["builds"] = rc == 0
rc, out = sh(run, cwd=WT)
meta["demo_with_change"] = "fail" if rc != 0 else "PASS"
meta["demo_output_tail"] = out[-600:]
os.remove(os.path.join(WT, pkg, "zz_seed_demo_test.go"))
pk = " ".join("./" + p + "/..." if p.count("/") <= 1 else "./" + p for p in touched)
rc, out = sh("go test -count=1 %s" % pk, cwd=WT)
meta["existing_tests_cmd"] = "go test -count=1 " + pk
meta["existing_tests_with_change"] = "pass" if rc == 0 else "FAIL"
if rc != 0:
    meta["existing_tests_tail"] = out[-800:]
sh("git -C /repo worktree remove --force %s" % WT)
# run our checks against the change applied to /repo
rc, out = sh("git -C /repo apply %s" % patch)
assert rc == 0, out
meta["checks"] = {}
try:
    for c in checks:
        t0 = time.time()
        rc, out = sh("./check %s quick" % c, cwd="/verif")
        lines = [l for l in out.splitlines() if l.startswith("VIOLATION") or l.startswith("ENGINE-ERROR")]
        meta["checks"][c] = {"exit": rc, "seconds": round(time.time() - t0, 1), "lines": lines[:12]}
finally:
    sh("git -C /repo checkout -- .")
    sh("git -C /verif checkout -- evidence")  # evidence written while a change was applied is not a record of the unchanged tree
meta["detected"] = any(v["exit"] == 1 for v in meta["checks"].values())
dst = "/verif/seeded/" + name
os.makedirs(dst, exist_ok=True)
shutil.copy(patch, dst + "/patch.diff")
shutil.copy(demo, dst + "/zz_seed_demo_test.go")
for f in ("NOTES.md",):
    if os.path.exists(os.path.join(cdir, f)):
        shutil.copy(os.path.join(cdir, f), dst + "/" + f)
json.dump(meta, open(dst + "/meta.json", "w"), indent=1)
print(json.dumps({k: meta[k] for k in ("name", "applies", "builds", "demo_without_change", "demo_with_change", "existing_tests_with_change", "detected")}))
for c, v in meta["checks"].items():
    print(c, v["exit"], v["lines"][:4])
