#!/usr/bin/env python3
"""Regenerates /verif/MANIFEST.json from the table below (keeps the manifest valid and current)."""
import json, subprocess, os
VERIF = os.path.dirname(os.path.dirname(os.path.abspath(__file__)))
base = json.load(open('/root/.vp/BASELINE.json'))

TECH = "contract-based deductive verification of the real code: function contracts in /repo (zz_contracts_verif.go), VCs generated from go/ssa by /verif/engine (govc), discharged by z3/cvc5"

CLAIMED = {
 "C17": dict(
  text="Proof, for all parameter values, block heights, consensus limits and gas figures, that CalculateBaseFee returns exactly the EIP-1559 function of the property statement (all six cases, result freshly allocated, no division by zero, no unsigned wrap-around) and that Params.Validate admits only parameters for which that function is defined. Unbounded: the code is loop-free and the inputs are fully symbolic.",
  design="§6 C17",
  note="Assumes the lib specs of math/big, cosmossdk.io/math and sdk.Context accessors, the trusted leaf contracts of the feemarket store getters/setters, and mathematical int64 arithmetic. EndBlock's gas clamp is covered by a separate contract in the same file. Monotonicity in g is a lemma over the postcondition (thorough tier)."),
 "C09": dict(
  text="Proof, for schedules of any length and amounts of any size and for an arbitrary (ghost) instant t, that ReadSchedule returns the sum of the periods ended by t (zero up to the start, the total from the end on), that DisjunctPeriods releases at every instant exactly the sum and ConjunctPeriods exactly the pointwise minimum of its inputs, that AlignSchedules / NewClawbackVestingAccount keep every absolute event time, that ComputeClawback returns exactly original - vested, keeps the vested coins under min(old lockup, vested) and a valid account, that addGrant merges the union of both schedules' events, that transferClawback sends exactly the unvested amount to the destination and that Clawback reaches it only for the recorded funder. Loop invariants over recursive ghost functions (prefix time, prefix sum, 'ended by t'), inductive lemmas, modular callee contracts.",
  design="§6 C09",
  note="Assumes mathematical int64 time arithmetic, the Coins map theory (valid coin lists), value semantics of slices, the assumed contracts of the expected keepers (account/bank) and lib specs of time/sdk. Known finding F7 (EndTime == StartTime after a clawback with nothing vested) is listed in known_findings.json. History-level statements (sequences of messages) are covered only through per-operation contracts."),
 "C08": dict(
  text="Proof for all accounts satisfying the representation invariant and all block times that LockedCoins equals max(original - unlockedVested - trackedDelegated, unvested) pointwise per denomination, lies between zero and the original grant, that the vested/unlocked/locked/unvested getters equal their defining schedule reads and never go negative (no Coins.Sub can panic), and that TrackDelegation adds exactly the delegated coins.",
  design="§6 C08",
  note="Covers the S1 part of C08 (the locked-amount formula the bank keeper consults). The guards (eth ante vesting decorator, staking delegation check) and the claim that every debit path goes through them are not yet under contract: stated under not_decided in the evidence. Assumes the Coins map theory and lib specs."),
 "C11": dict(
  text="Proof for period lists of any length and amounts of any size that SubtractAmountFromPeriods splits every period exactly (left + moved = original, both non-negative, only the requested denomination moves, moved total = requested amount; error exactly when funds are insufficient), that the extract/replace/shift helpers are exact, that Liquidate escrows and mints exactly the requested amount, stores a schedule whose total is that amount and whose events keep the absolute times they had on the account, leaving period by period what was not moved, that Redeem burns/releases/shrinks by exactly the redeemed amount and hands the released schedule to the vesting keeper anchored at the token's own start, and that ApplyVestingSchedule keeps every event of the granted coins at its absolute time (nothing unlocks earlier).",
  design="§6 C11",
  note="Nonlinear facts (floor(a*S/Tot) bounds, cancellation, distributivity) are separate lemmas proved with real arithmetic; main goals may be discharged under the sound abstraction of * and div to uninterpreted functions. Bank/account/erc20 keepers and the denom store leaves are assumed contracts. The defect F2 (merged grants anchored too early) was found by this check and repaired (fix: commit). Backing over arbitrary histories follows only by induction over the per-operation contracts and is not proved as a whole."),
 "C06": dict(
  text="Proof for every transaction (any number of messages, any nesting of authz exec messages) that RejectMessagesDecorator calls the next handler only when no message is an Ethereum message, that checkDisabledMsgs returns nil only for message trees that are 'clean' (recursive ghost predicate: no barred type executed as inner message, no barred type granted, exec messages clean recursively - proved with the function's own contract at the recursive call), that AuthzLimiterDecorator calls next only for clean transactions, that the routing closure of NewAnteHandler calls exactly the handler selected by the first extension option and none for an unknown option, and that the Cosmos handler chains start with the reject and authz-limiter decorators whose barred list contains the Ethereum message and vesting-account creation.",
  design="§6 C06",
  note="Assumes lib specs for sdk.Tx / authz accessors (message objects are not mutated during the check), that sdk.ChainAnteDecorators runs the chain in order, and that each handler constructor is a function of its options. The EVM handler's decorator list and app/haqq_ante.go are not under contract."),
 "C07": dict(
  text="Proof for all fee fields and gas values of the arithmetic the fee rules rest on: EffectiveGasPrice = min(tip + base, cap), fee = price * gas, cost = fee + value and the per-type Fee/Cost/Effective* methods of legacy, access-list and dynamic-fee data (fresh results, stored fields unchanged), GasToRefund, VerifyFee (non-error => cap >= base fee and returned coins = gas limit * effective price, intrinsic gas checked), RefundGas (exactly leftover * price from the fee collector to the sender), and the two minimum-gas-price decorators as guard contracts: next is called only when every message meets the floor.",
  design="§6 C07",
  note="The TxData interface is specified at interface level (refinement to the three implementations is by inspection of the verified per-type contracts); bank keeper, go-ethereum accessors and codec unpacking are assumed contracts. The gas tail of ApplyMessageWithConfig is NOT under contract (the engine cannot execute that function); only the arithmetic lemma GasUsedBound is proved - stated in not_decided."),
 "C12": dict(
  text="Proof over an abstract ledger view (per-holder balances, total, holder index, bank balances) that Fund credits the depositor with exactly the deposit and raises total and module balance by it, that TransferOwnership moves exactly the amount between distinct accounts, is a no-op for owner == newOwner, touches nobody else and preserves the ledger invariant (sum of shares == total == module balance, index == non-zero holders), and that the four message handlers (full / ratio / amount) compute and pass exactly the stated amounts. Loops over coin lists are proved with prefix invariants.",
  design="§6 C12",
  note="Leaf store accessors are assumed contracts over the view; the sum over all holders is an uninterpreted function characterised by its point-update law (trusted). The defect F1 (self-transfer destroyed the share) was exposed by this check and repaired (fix: commit). Genesis initialisation of the invariant is covered under C19 only at field level."),
 "C13": dict(
  text="Proof for all bonded amounts, coefficients, timestamps and supplies that MintAndAllocate / EndBlocker mint exactly round(bonded * coef/100 * elapsed/yearMs) in the SDK's 18-decimal arithmetic with the leap-year rule, that the capped block mints exactly max - supply and switches minting off, that supply never exceeds the maximum when it did not before, that the fee collector receives exactly the minted amount, and that nothing changes while disabled or on the first block.",
  design="§6 C13",
  note="sdk.Dec operations are modelled exactly from cosmossdk.io/math v1.3.0 (including the truncate-then-round quotient); bank/staking keepers and store leaves are assumed contracts. Known finding F11: the timestamp is not advanced when the block amount is negative and survives a disable/enable cycle (listed in known_findings.json)."),
 "C14": dict(
  text="Proof that BurnCoins for gov / bonded / not-bonded pools leaves the supply unchanged, moves exactly the amount from the module to the distribution module account, raises the community pool by exactly the amount and writes nothing else, that an error leaves the pool untouched, and that every other module name reaches the embedded SDK BurnCoins with the same arguments and nothing else is written.",
  design="§6 C14",
  note="SDK bank transfer/burn and the KV store / FeePool codec are assumed contracts. That staking and gov are wired to the overriding keeper in app.go is a type-level fact, not an SMT obligation."),
 "C18": dict(
  text="Field-level round trip, proved for all transactions: NewTxDataFromTx / NewLegacyTx / newAccessListTx / NewDynamicFeeTx store every field of the go-ethereum transaction (nil <-> nil, values equal, access list mirrored), AsEthereumData reproduces every stored field, signature values round-trip through bytes, DeriveChainID agrees on both code paths, FromEthereumTx records tx.Hash().Hex(), fee and cost are gasPrice*gas and fee+value.",
  design="§6 C18",
  note="go-ethereum's Transaction accessors, hex/bytes conversions and the protobuf codec are assumed (uninterpreted functions with stated inverses). Hash and sender preservation follow only under the listed assumption that they are functions of exactly these fields."),
 "C19": dict(
  text="Per module (fee market, coinomics, epochs, liquid vesting, ERC20, DAO): ExportGenesis returns the abstract module view field by field, InitGenesis establishes view == document field by field (collections through fold invariants), and the compositions export;import and import;export are identities (ghost compositions proved from the two contracts).",
  design="§6 C19",
  note="Leaf store accessors and iteration helpers are assumed contracts (key-prefix disjointness and codec round trips are assumed there); list/collection laws are explicit axioms. Known findings F3a (coinomics drops PrevBlockTs) and F3b (epochs rewrites start height) are listed. EVM state, auth vesting accounts and the app-level export are not covered."),
}

NA_FINAL = {
 "C01": "A two-run hyperproperty over whole block histories and independently constructed processes; no pre/postcondition on a function of /repo states it (DESIGN.md §9).",
 "C15": "The invariants are SDK predicates over the full multistore after arbitrary histories; their bodies and most of the code that must preserve them are outside /repo. The Haqq-specific steps are proved under C11-C14 (DESIGN.md §9).",
 "C20": "A statement about process lifetime and the database; function contracts have no notion of stop/restart, and the one in-memory field that could diverge has no non-test writer on this tree (DESIGN.md §9).",
}
NOT_YET = "not claimed: contracts for this property are not built yet in this session (DESIGN.md §11 build order); no check is registered rather than a weaker technique being substituted"

props = [json.loads(l) for l in open(os.path.join(VERIF, 'properties.jsonl'))]
hooks = subprocess.run(['git', '-C', '/repo', 'log', '--format=%H %s'], stdout=subprocess.PIPE, text=True).stdout.splitlines()
hook_commits = [l.split()[0] for l in hooks if 'verif hooks' in l]

m = {
 "version": 1,
 "setup_cmd": "cd /verif/engine && GOFLAGS=-mod=mod GOPROXY=off GOSUMDB=off GOTOOLCHAIN=local go build -o /verif/bin/govc ./cmd/govc",
 "hooks": {"guard": "verif",
           "enable": "Go build tag: -tags verif. The only hook files are comment-only contract files zz_contracts_verif.go (package clause + /*@ ... @*/ comments), compiled only with the tag; replay drivers enter packages through go test -overlay and are never written to /repo.",
           "baseline_off_cmd": base["cmd"], "source_commits": hook_commits, "add_only": True},
 "engines": [{"name": "govc", "path": "/verif/engine", "serves_properties": sorted(CLAIMED),
              "kind_free_text": "contract-based deductive verifier for Go written for this task: symbolic execution of go/ssa (NaiveForm) with loop invariants, modular callee contracts, ghost functions and inductive lemmas; obligations discharged by z3 4.8.12 / z3 5.1.0 / cvc5 1.0 raced per obligation"}],
 "checks": [], "not_applicable": [],
 "notes": "DESIGN.md describes the approach; known_findings.json lists fixed and recorded defects; seeded/ holds property-breaking changes used to test the checks.",
}
for p in props:
    pid = p["id"]
    if pid in CLAIMED:
        c = CLAIMED[pid]
        m["checks"].append({
            "property_id": pid,
            "quick_cmd": "./check %s quick" % pid,
            "thorough_cmd": "./check %s thorough" % pid,
            "evidence_file": "/verif/evidence/%s.json" % pid,
            "replay_cmd_template": "./check --replay {path}",
            "engine": "govc",
            "level_claimed": {"category": "proof", "text": c["text"], "design_ref": c["design"]},
            "level_note": c["note"],
            "technique": TECH,
        })
    else:
        m["not_applicable"].append({"property_id": pid, "reason": NA_FINAL.get(pid, NOT_YET)})
json.dump(m, open(os.path.join(VERIF, 'MANIFEST.json'), 'w'), indent=1)
print("claimed:", sorted(CLAIMED), "n/a:", len(m["not_applicable"]))
