#!/usr/bin/env python3
"""Regenerates /verif/MANIFEST.json from the table below (keeps the manifest valid and current)."""
import json, subprocess, os
VERIF = os.path.dirname(os.path.dirname(os.path.abspath(__file__)))
base = json.load(open('/root/.vp/BASELINE.json'))

TECH = "contract-based deductive verification of the real code: function contracts in /repo (zz_contracts_verif.go), VCs generated from go/ssa by /verif/engine (govc), discharged by z3/cvc5"

CLAIMED = {
 "C17": dict(
  text="Proof, for all parameter values, block heights, consensus limits and gas figures, that CalculateBaseFee returns exactly the EIP-1559 function of the property statement (all six cases, result freshly allocated, no division by zero, no unsigned wrap-around) and that Params.Validate admits only parameters for which that function is defined. Unbounded: the code is loop-free and the inputs are fully symbolic.",
  design="§6 C17",
  note="Assumes the lib specs of math/big, cosmossdk.io/math and sdk.Context accessors, the trusted leaf contracts of the feemarket store getters/setters, and mathematical int64 arithmetic. EndBlock's gas clamp is covered by a separate contract in the same file. Monotonicity in g is a lemma over the postcondition (thorough tier)."),
 "C09": dict(
  text="Proof, for schedules of any length and amounts of any size and for an arbitrary (ghost) instant t, that ReadSchedule returns the sum of the periods ended by t (zero up to the start, the total from the end on), that DisjunctPeriods releases at every instant exactly the sum and ConjunctPeriods exactly the pointwise minimum of its inputs, that AlignSchedules / NewClawbackVestingAccount keep every absolute event time, that ComputeClawback returns exactly original - vested, keeps the vested coins under min(old lockup, vested) and a valid account, that addGrant merges the union of both schedules' events, that transferClawback sends exactly the unvested amount to the destination and that Clawback reaches it only for the recorded funder. Loop invariants over recursive ghost functions (prefix time, prefix sum, 'ended by t'), inductive lemmas, modular callee contracts.",
  design="§6 C09",
  note="Assumes mathematical int64 time arithmetic, the Coins map theory (valid coin lists), value semantics of slices, the assumed contracts of the expected keepers (account/bank) and lib specs of time/sdk. Known finding F7 (EndTime == StartTime after a clawback with nothing vested) is listed in known_findings.json. History-level statements (sequences of messages) are covered only through per-operation contracts."),
 "C08": dict(
  text="Proof for all accounts satisfying the representation invariant and all block times that LockedCoins equals max(original - unlockedVested - trackedDelegated, unvested) pointwise per denomination, lies between zero and the original grant, that the vested/unlocked/locked/unvested getters equal their defining schedule reads and never go negative (no Coins.Sub can panic), and that TrackDelegation adds exactly the delegated coins.",
  design="§6 C08",
  note="Covers the S1 part of C08 (the locked-amount formula the bank keeper consults). The guards (eth ante vesting decorator, staking delegation check) and the claim that every debit path goes through them are not yet under contract: stated under not_decided in the evidence. Assumes the Coins map theory and lib specs."),
 "C11": dict(
  text="Proof for period lists of any length and amounts of any size that SubtractAmountFromPeriods splits every period exactly (left + moved = original, both non-negative, only the requested denomination moves, moved total = requested amount; error exactly when funds are insufficient), that the extract/replace/shift helpers are exact, that Liquidate escrows and mints exactly the requested amount, stores a schedule whose total is that amount and whose events keep the absolute times they had on the account, leaving period by period what was not moved, that Redeem burns/releases/shrinks by exactly the redeemed amount and hands the released schedule to the vesting keeper anchored at the token's own start, and that ApplyVestingSchedule keeps every event of the granted coins at its absolute time (nothing unlocks earlier).",
  design="§6 C11",
  note="Nonlinear facts (floor(a*S/Tot) bounds, cancellation, distributivity) are separate lemmas proved with real arithmetic; main goals may be discharged under the sound abstraction of * and div to uninterpreted functions. Bank/account/erc20 keepers and the denom store leaves are assumed contracts. The defect F2 (merged grants anchored too early) was found by this check and repaired (fix: commit). Backing over arbitrary histories follows only by induction over the per-operation contracts and is not proved as a whole."),
 "C06": dict(
  text="Proof for every transaction (any number of messages, any nesting of authz exec messages) that RejectMessagesDecorator calls the next handler only when no message is an Ethereum message, that checkDisabledMsgs returns nil only for message trees that are 'clean' (recursive ghost predicate: no barred type executed as inner message, no barred type granted, exec messages clean recursively - proved with the function's own contract at the recursive call), that AuthzLimiterDecorator calls next only for clean transactions, that the routing closure of NewAnteHandler calls exactly the handler selected by the first extension option and none for an unknown option, and that the Cosmos handler chains start with the reject and authz-limiter decorators whose barred list contains the Ethereum message and vesting-account creation.",
  design="§6 C06",
  note="Assumes lib specs for sdk.Tx / authz accessors (message objects are not mutated during the check), that sdk.ChainAnteDecorators runs the chain in order, and that each handler constructor is a function of its options. The EVM handler's decorator list and app/haqq_ante.go are not under contract."),
 "C07": dict(
  text="Proof for all fee fields and gas values of the arithmetic the fee rules rest on: EffectiveGasPrice = min(tip + base, cap), fee = price * gas, cost = fee + value and the per-type Fee/Cost/Effective* methods of legacy, access-list and dynamic-fee data (fresh results, stored fields unchanged), GasToRefund, VerifyFee (non-error => cap >= base fee and returned coins = gas limit * effective price, intrinsic gas checked), RefundGas (exactly leftover * price from the fee collector to the sender), the gas tail of ApplyMessageWithConfig (gas used and refund), and the two minimum-gas-price decorators as guard contracts: next is called only when every message meets the floor.",
  design="§6 C07",
  note="The TxData interface is specified at interface level (refinement to the three implementations is by inspection of the verified per-type contracts); bank keeper, go-ethereum accessors and codec unpacking are assumed contracts. The gas tail of ApplyMessageWithConfig is under contract with the interpreter call (EVM.Call/Create) as unknown code whose leftover-gas result is a free value: gasUsed == max(trunc(gasLimit x minGasMultiplier), consumed - min(consumed/quotient, refund counter)) <= gasLimit, both overflow error returns proved dead; NewEVM, statedb.New, GetRefund, Commit and the parameter getters are trusted leaves there."),
 "C12": dict(
  text="Proof over an abstract ledger view (per-holder balances, total, holder index, bank balances) that Fund credits the depositor with exactly the deposit and raises total and module balance by it, that TransferOwnership moves exactly the amount between distinct accounts, is a no-op for owner == newOwner, touches nobody else and preserves the ledger invariant (sum of shares == total == module balance, index == non-zero holders), and that the four message handlers (full / ratio / amount) compute and pass exactly the stated amounts. Loops over coin lists are proved with prefix invariants.",
  design="§6 C12",
  note="Leaf store accessors are assumed contracts over the view; the sum over all holders is an uninterpreted function characterised by its point-update law (trusted). The defect F1 (self-transfer destroyed the share) was exposed by this check and repaired (fix: commit). Genesis initialisation of the invariant is covered under C19 only at field level."),
 "C13": dict(
  text="Proof for all bonded amounts, coefficients, timestamps and supplies that MintAndAllocate / EndBlocker mint exactly round(bonded * coef/100 * elapsed/yearMs) in the SDK's 18-decimal arithmetic with the leap-year rule, that the capped block mints exactly max - supply and switches minting off, that supply never exceeds the maximum when it did not before, that the fee collector receives exactly the minted amount, and that nothing changes while disabled or on the first block.",
  design="§6 C13",
  note="sdk.Dec operations are modelled exactly from cosmossdk.io/math v1.3.0 (including the truncate-then-round quotient); bank/staking keepers and store leaves are assumed contracts. Known finding F11: the timestamp is not advanced when the block amount is negative and survives a disable/enable cycle (listed in known_findings.json)."),
 "C14": dict(
  text="Proof that BurnCoins for gov / bonded / not-bonded pools leaves the supply unchanged, moves exactly the amount from the module to the distribution module account, raises the community pool by exactly the amount and writes nothing else, that an error leaves the pool untouched, and that every other module name reaches the embedded SDK BurnCoins with the same arguments and nothing else is written.",
  design="§6 C14",
  note="SDK bank transfer/burn and the KV store / FeePool codec are assumed contracts. That staking and gov are wired to the overriding keeper in app.go is a type-level fact, not an SMT obligation."),
 "C18": dict(
  text="Field-level round trip, proved for all transactions: NewTxDataFromTx / NewLegacyTx / newAccessListTx / NewDynamicFeeTx store every field of the go-ethereum transaction (nil <-> nil, values equal, access list mirrored), AsEthereumData reproduces every stored field, signature values round-trip through bytes, DeriveChainID agrees on both code paths, FromEthereumTx records tx.Hash().Hex(), fee and cost are gasPrice*gas and fee+value.",
  design="§6 C18",
  note="go-ethereum's Transaction accessors, hex/bytes conversions and the protobuf codec are assumed (uninterpreted functions with stated inverses). Hash and sender preservation follow only under the listed assumption that they are functions of exactly these fields."),
 "C19": dict(
  text="Per module (fee market, coinomics, epochs, liquid vesting, ERC20, DAO): ExportGenesis returns the abstract module view field by field, InitGenesis establishes view == document field by field (collections through fold invariants), and the compositions export;import and import;export are identities (ghost compositions proved from the two contracts).",
  design="§6 C19",
  note="Leaf store accessors are assumed contracts (key-prefix disjointness and codec round trips are assumed there); the iteration helpers ExportGenesis relies on (ucdao GetAccountsBalances / GetTotalBalance, erc20 GetTokenPairs, epochs AllEpochInfos, liquidvesting GetAllDenoms) are verified against a KV-iterator model (every stored entry is visited once, in order: assumed of the store) - the link between their verified enumeration contracts and the abstract list functions the round-trip lemmas use is by reading, not by an obligation; list/collection laws are explicit axioms. Known findings F3a (coinomics drops PrevBlockTs) and F3b (epochs rewrites start height) are listed. EVM state, auth vesting accounts and the app-level export are not covered."),
 "C02": dict(
  text="Proof of the three places in /repo the statement rests on. (1) The write-back lemma: keeper.SetBalance(addr, amount) leaves exactly amount as addr's bank balance in the EVM denomination, changes no other account and no other denomination, and moves the supply by exactly (amount - previous balance). (2) StateDB.Commit writes back exactly the cached record of every journal-dirty, not self-destructed object (call-site clauses), and the journal part it depends on (entries' Revert, journal.Revert with exact per-address dirty counters, Suicide, RevertToSnapshot) is proved, so the set of accounts written back is exactly the set the transaction touched. (3) For the precompile methods that move liquid coins on the Cosmos side (staking.Delegate, distribution.WithdrawDelegatorRewards / WithdrawValidatorCommission, ics20.Transfer) the postcondition c02_mirrored demands that the cached balance of the debited / credited account moves by the same amount - otherwise the write-back overwrites it.",
  design="§6 C02, §12.3 F5",
  note="(3) FAILS on this tree and is recorded as known finding F5 (four obligations; the half that must hold - mirror exactly when the calling contract is the delegator / sender - is proved). Each is replayed on the real code by whole-transaction drivers (replay/*_precompile_test.go): signer sends value 1 to a contract that acts for the signer -> supply +1000 / -rewards / -commission. That EVM opcodes conserve the sum of cached balances is go-ethereum code outside /repo (assumed); ClaimRewards, CreateValidator and the bank/erc20 precompiles carry no mirror clause; bank keeper mint/burn/send are assumed exact contracts."),
 "C03": dict(
  text="Guard contracts, proved for every transaction (any number of messages): EthSigVerificationDecorator calls next only if every message is an Ethereum message whose sender, recovered with the signer built from this chain's own config and id, equals msg.From (and unprotected transactions only when allowed); EthIncrementSenderSequenceDecorator calls next only if each message's nonce equals the sender's current sequence, with the store sequence advanced by one per message (lemmas: a replay of an accepted list is refused; consecutive messages of one sender need consecutive nonces); EthValidateBasicDecorator admits no Cosmos-side signature/fee-payer/memo fields and fee/gas totals equal to the sums over the messages; the legacy EIP-712 decorator calls next only with exactly one signature whose sequence equals the account's and whose recovered key is the account's key over the typed-data hash of the sign bytes for this chain id, account number and sequence; ParseChainID is verified against its body.",
  design="§6 C03",
  note="Cryptography is axiomatised: ecrecover / signer.Sender / typed-data hashing are uninterpreted functions of exactly their arguments (injectivity = collision resistance is assumed, not proved). The plain Cosmos route is SDK code outside /repo (assumed). Composition of the decorators into a chain is argued in comments, not by an obligation. The link between the nonce checked by the decorator and the signed nonce goes through the C18 contracts."),
 "C04": dict(
  text="Proved at the point of no return of every state-changing staking, distribution and ICS-20 precompile method (the call of the module's message server / keeper): the message names the transaction signer or the immediate caller as the account acted for; when caller != signer a live grant of the right type from signer to caller exists and covers the amount (ICS-20: TransferAuthorization.Accept returned a response); nothing was written before that point; the grant update uses exactly grantee = caller, granter = signer, the authorization and expiration returned by the check, and reduces a limited grant by exactly the amount (deleting it when used up, never below zero); on every refusal the Cosmos state and the balance mirror are unchanged. CheckAuthzExists / CheckAuthzAndAllowanceForGranter are characterised exactly (iff) over an abstract grant store; increase/decreaseAllowance arithmetic is exact.",
  design="§6 C04",
  note="Known finding G2 (four obligations): for staking methods the grant's validator allow/deny list is consulted only after the message server ran. Not under contract: the staking/ICS-20 Approve/Revoke/IncreaseAllowance/DecreaseAllowance entry points (only their inner arithmetic), erc20 precompile approvals, read-only queries. SDK message servers, authz keeper and Accept functions are assumed contracts transcribed from the SDK source; EVM addresses are abstract identities with injective conversions."),
 "C05": dict(
  text="Proved for every journal and every snapshot id: each of the eleven journal entry types' Revert restores exactly the field its mutator changed and nothing else; every StateDB / stateObject mutator appends exactly one entry recording the old value and the mutated object; journal.Revert (loop with dynamic dispatch over the entry types) undoes exactly the entries above the snapshot index - length, kept prefix, log count and per-address dirty counters are exact; Snapshot ids are strictly increasing; RevertToSnapshot reverts to exactly the journal index recorded for that id and truncates the revision stack. For the precompile half the postcondition c05_undoable on staking.Delegate, distribution.WithdrawDelegatorRewards and ics20.Transfer demands that a successful call leaves the Cosmos state undoable by the journal (which, the entry types being a closed set each proved to write nothing outside the StateDB, means unchanged).",
  design="§6 C05, §12.3 F6",
  note="c05_undoable FAILS on this tree and is recorded as known finding F6 (three obligations), each replayed on the real code by the whole-transaction drivers (snapshot, precompile call, RevertToSnapshot, commit: the delegation / withdrawal / escrow persists). The other state-changing precompile methods carry no such clause. sortedDirties / SortedKeys range over maps and are trusted; access-list slot entries are proved at frame level only; Commit's storage loop and 'a failed transaction changes only fee and nonce' (ApplyTransaction's cache-context discipline) are not under contract yet."),
 "C10": dict(
  text="Proved per conversion path over an exact bank model and an adversarial token model (balanceOf results are whatever the token reports): each of the four convert* functions debits one representation and credits the other by exactly the message amount in a fixed order (escrow before any EVM effect; mint / unescrow / burn only after the token-side call returned true and the re-read balance moved by exactly the amount), returns an error otherwise, and leaves the bank in one of the enumerated prefix states on failure; ConvertCoin / ConvertERC20 dispatch to the path matching the pair's owner and refuse disabled pairs; the IBC receive/ack/timeout entry points convert exactly the packet amount; monitorApprovalEvent refuses any log whose first topic is the Approval signature.",
  design="§6 C10",
  note="Known finding F10: PostTxProcessing mints for any Transfer(-> module) log of a registered external token without reading the escrow (unbacked mint). F10b (index of Topics[0] of a topic-less log) was found by this check and repaired. The peg as an invariant over arbitrary histories follows only by induction over the per-operation contracts; EVM execution is one uninterpreted state token; leaf store accessors are trusted."),
 "C16": dict(
  text="Proved for every argument list: each New*Msg decoder of the staking, distribution and ICS-20 precompiles succeeds exactly when the arity and dynamic types are right and the SDK ValidateBasic conjunction holds, and the message it builds carries exactly the decoded fields (delegator as bech32 of the address, validator strings, amounts, creation height, withdraw address re-encoded with the chain prefix, transfer fields); each transaction method then makes exactly one call of the module's own message server with that message and the wrapped context, fails when it fails, and its effect on the Cosmos state is the message server's (native_effect); event emitters cannot panic for any coin list and write no Cosmos state.",
  design="§6 C16",
  note="Findings G1 (creation height wrapped through Int64), G4 (panic on an empty commission) and G5 (balance mirror credited with the first coin whatever its denomination) were found by this check and repaired by fix: commits. Read-only staking queries, the bank precompile, gas metering (RunSetup/HandleGasError), TimeoutHeight decoding and the commission/pubkey fields of MsgCreateValidator are not under contract. Message servers are uninterpreted functions of (state, context, message fields): equivalence is 'same call with same arguments', not a store diff."),
}

NA_FINAL = {
 "C01": "A two-run hyperproperty over whole block histories and independently constructed processes; no pre/postcondition on a function of /repo states it (DESIGN.md §9).",
 "C15": "The invariants are SDK predicates over the full multistore after arbitrary histories; their bodies and most of the code that must preserve them are outside /repo. The Haqq-specific steps are proved under C11-C14 (DESIGN.md §9).",
 "C20": "A statement about process lifetime and the database; function contracts have no notion of stop/restart, and the one in-memory field that could diverge has no non-test writer on this tree (DESIGN.md §9).",
}
NOT_YET = "not claimed: contracts for this property are not built yet in this session (DESIGN.md §11 build order); no check is registered rather than a weaker technique being substituted"

props = [json.loads(l) for l in open(os.path.join(VERIF, 'properties.jsonl'))]
hooks = subprocess.run(['git', '-C', '/repo', 'log', '--format=%H %s'], stdout=subprocess.PIPE, text=True).stdout.splitlines()
hook_commits = [l.split()[0] for l in hooks if 'verif hooks' in l]

m = {
 "version": 1,
 "setup_cmd": "cd /verif/engine && GOFLAGS=-mod=mod GOPROXY=off GOSUMDB=off GOTOOLCHAIN=local go build -o /verif/bin/govc ./cmd/govc",
 "hooks": {"guard": "verif",
           "enable": "Go build tag: -tags verif. The hook files are comment-only contract files zz_contracts_verif.go / zz_contracts_<family>_verif.go (package clause + /*@ ... @*/ comments) and, for C19, zz_roundtrip_verif.go (ghost compositions export;import written as real Go), all compiled only with the tag; replay drivers enter packages through go test -overlay and are never written to /repo.",
           "baseline_off_cmd": base["cmd"], "source_commits": hook_commits, "add_only": True},
 "engines": [{"name": "govc", "path": "/verif/engine", "serves_properties": sorted(CLAIMED),
              "kind_free_text": "contract-based deductive verifier for Go written for this task: symbolic execution of go/ssa (NaiveForm) with loop invariants, modular callee contracts, ghost functions and inductive lemmas; obligations discharged by z3 4.8.12 / z3 5.1.0 / cvc5 1.0 raced per obligation"}],
 "checks": [], "not_applicable": [],
 "notes": "DESIGN.md describes the approach; known_findings.json lists fixed and recorded defects; seeded/ holds property-breaking changes used to test the checks.",
}
for p in props:
    pid = p["id"]
    if pid in CLAIMED:
        c = CLAIMED[pid]
        m["checks"].append({
            "property_id": pid,
            "quick_cmd": "./check %s quick" % pid,
            "thorough_cmd": "./check %s thorough" % pid,
            "evidence_file": "/verif/evidence/%s.json" % pid,
            "replay_cmd_template": "./check --replay {path}",
            "engine": "govc",
            "level_claimed": {"category": "proof", "text": c["text"], "design_ref": c["design"]},
            "level_note": c["note"],
            "technique": TECH,
        })
    else:
        m["not_applicable"].append({"property_id": pid, "reason": NA_FINAL.get(pid, NOT_YET)})
json.dump(m, open(os.path.join(VERIF, 'MANIFEST.json'), 'w'), indent=1)
print("claimed:", sorted(CLAIMED), "n/a:", len(m["not_applicable"]))
