#!/usr/bin/env python3
"""Regenerates /verif/MANIFEST.json from the table below (keeps the manifest valid and current)."""
import json, subprocess, os
VERIF = os.path.dirname(os.path.dirname(os.path.abspath(__file__)))
base = json.load(open('/root/.vp/BASELINE.json'))

TECH = "contract-based deductive verification of the real code: function contracts in /repo (zz_contracts_verif.go), VCs generated from go/ssa by /verif/engine (govc), discharged by z3/cvc5"

CLAIMED = {
 "C17": dict(
  text="Proof, for all parameter values, block heights, consensus limits and gas figures, that CalculateBaseFee returns exactly the EIP-1559 function of the property statement (all six cases, result freshly allocated, no division by zero, no unsigned wrap-around) and that Params.Validate admits only parameters for which that function is defined. Unbounded: the code is loop-free and the inputs are fully symbolic.",
  design="§6 C17",
  note="Assumes the lib specs of math/big, cosmossdk.io/math and sdk.Context accessors, the trusted leaf contracts of the feemarket store getters/setters, and mathematical int64 arithmetic. EndBlock's gas clamp is covered by a separate contract in the same file. Monotonicity in g is a lemma over the postcondition (thorough tier)."),
}

NA_FINAL = {
 "C01": "A two-run hyperproperty over whole block histories and independently constructed processes; no pre/postcondition on a function of /repo states it (DESIGN.md §9).",
 "C15": "The invariants are SDK predicates over the full multistore after arbitrary histories; their bodies and most of the code that must preserve them are outside /repo. The Haqq-specific steps are proved under C11-C14 (DESIGN.md §9).",
 "C20": "A statement about process lifetime and the database; function contracts have no notion of stop/restart, and the one in-memory field that could diverge has no non-test writer on this tree (DESIGN.md §9).",
}
NOT_YET = "not claimed: contracts for this property are not built yet in this session (DESIGN.md §11 build order); no check is registered rather than a weaker technique being substituted"

props = [json.loads(l) for l in open(os.path.join(VERIF, 'properties.jsonl'))]
hooks = subprocess.run(['git', '-C', '/repo', 'log', '--format=%H %s'], stdout=subprocess.PIPE, text=True).stdout.splitlines()
hook_commits = [l.split()[0] for l in hooks if 'verif hooks' in l]

m = {
 "version": 1,
 "setup_cmd": "cd /verif/engine && GOFLAGS=-mod=mod GOPROXY=off GOSUMDB=off GOTOOLCHAIN=local go build -o /verif/bin/govc ./cmd/govc",
 "hooks": {"guard": "verif",
           "enable": "Go build tag: -tags verif. The only hook files are comment-only contract files zz_contracts_verif.go (package clause + /*@ ... @*/ comments), compiled only with the tag; replay drivers enter packages through go test -overlay and are never written to /repo.",
           "baseline_off_cmd": base["cmd"], "source_commits": hook_commits, "add_only": True},
 "engines": [{"name": "govc", "path": "/verif/engine", "serves_properties": sorted(CLAIMED),
              "kind_free_text": "contract-based deductive verifier for Go written for this task: symbolic execution of go/ssa (NaiveForm) with loop invariants, modular callee contracts, ghost functions and inductive lemmas; obligations discharged by z3 4.8.12 / z3 5.1.0 / cvc5 1.0 raced per obligation"}],
 "checks": [], "not_applicable": [],
 "notes": "DESIGN.md describes the approach; known_findings.json lists fixed and recorded defects; seeded/ holds property-breaking changes used to test the checks.",
}
for p in props:
    pid = p["id"]
    if pid in CLAIMED:
        c = CLAIMED[pid]
        m["checks"].append({
            "property_id": pid,
            "quick_cmd": "./check %s quick" % pid,
            "thorough_cmd": "./check %s thorough" % pid,
            "evidence_file": "/verif/evidence/%s.json" % pid,
            "replay_cmd_template": "./check --replay {path}",
            "engine": "govc",
            "level_claimed": {"category": "proof", "text": c["text"], "design_ref": c["design"]},
            "level_note": c["note"],
            "technique": TECH,
        })
    else:
        m["not_applicable"].append({"property_id": pid, "reason": NA_FINAL.get(pid, NOT_YET)})
json.dump(m, open(os.path.join(VERIF, 'MANIFEST.json'), 'w'), indent=1)
print("claimed:", sorted(CLAIMED), "n/a:", len(m["not_applicable"]))
