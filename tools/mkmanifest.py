#!/usr/bin/env python3
"""Regenerates /verif/MANIFEST.json from the table below (keeps the manifest valid and current)."""
import json, subprocess, os
VERIF = os.path.dirname(os.path.dirname(os.path.abspath(__file__)))
base = json.load(open('/root/.vp/BASELINE.json'))

TECH = "contract-based deductive verification of the real code: function contracts in /repo (zz_contracts_verif.go), VCs generated from go/ssa by /verif/engine (govc), discharged by z3/cvc5"

CLAIMED = {
 "C17": dict(
  text="Proof, for all parameter values, block heights, consensus limits and gas figures, that CalculateBaseFee returns exactly the EIP-1559 function of the property statement (all six cases, result freshly allocated, no division by zero, no unsigned wrap-around) and that Params.Validate admits only parameters for which that function is defined. Unbounded: the code is loop-free and the inputs are fully symbolic.",
  design="§6 C17",
  note="Assumes the lib specs of math/big, cosmossdk.io/math and sdk.Context accessors, the trusted leaf contracts of the feemarket store getters/setters, and mathematical int64 arithmetic. EndBlock's gas clamp is covered by a separate contract in the same file. Monotonicity in g is a lemma over the postcondition (thorough tier)."),
 "C09": dict(
  text="Proof, for schedules of any length and amounts of any size and for an arbitrary (ghost) instant t, that ReadSchedule returns the sum of the periods ended by t (zero up to the start, the total from the end on), that DisjunctPeriods releases at every instant exactly the sum and ConjunctPeriods exactly the pointwise minimum of its inputs, that AlignSchedules / NewClawbackVestingAccount keep every absolute event time, that ComputeClawback returns exactly original - vested, keeps the vested coins under min(old lockup, vested) and a valid account, that addGrant merges the union of both schedules' events, that transferClawback sends exactly the unvested amount to the destination and that Clawback reaches it only for the recorded funder. Loop invariants over recursive ghost functions (prefix time, prefix sum, 'ended by t'), inductive lemmas, modular callee contracts.",
  design="§6 C09",
  note="Assumes mathematical int64 time arithmetic, the Coins map theory (valid coin lists), value semantics of slices, the assumed contracts of the expected keepers (account/bank) and lib specs of time/sdk. Known finding F7 (EndTime == StartTime after a clawback with nothing vested) is listed in known_findings.json. History-level statements (sequences of messages) are covered only through per-operation contracts."),
 "C08": dict(
  text="Proof for all accounts satisfying the representation invariant and all block times that LockedCoins equals max(original - unlockedVested - trackedDelegated, unvested) pointwise per denomination, lies between zero and the original grant, that the vested/unlocked/locked/unvested getters equal their defining schedule reads and never go negative (no Coins.Sub can panic), and that TrackDelegation adds exactly the delegated coins.",
  design="§6 C08",
  note="Covers the S1 part of C08 (the locked-amount formula the bank keeper consults). The guards (eth ante vesting decorator, staking delegation check) and the claim that every debit path goes through them are not yet under contract: stated under not_decided in the evidence. Assumes the Coins map theory and lib specs."),
 "C11": dict(
  text="Proof for period lists of any length and amounts of any size that SubtractAmountFromPeriods splits every period exactly (left + moved = original, both non-negative, only the requested denomination moves, moved total = requested amount; error exactly when funds are insufficient), that the extract/replace/shift helpers are exact, that Liquidate escrows and mints exactly the requested amount, stores a schedule whose total is that amount and whose events keep the absolute times they had on the account, leaving period by period what was not moved, that Redeem burns/releases/shrinks by exactly the redeemed amount and hands the released schedule to the vesting keeper anchored at the token's own start, and that ApplyVestingSchedule keeps every event of the granted coins at its absolute time (nothing unlocks earlier).",
  design="§6 C11",
  note="Nonlinear facts (floor(a*S/Tot) bounds, cancellation, distributivity) are separate lemmas proved with real arithmetic; main goals may be discharged under the sound abstraction of * and div to uninterpreted functions. Bank/account/erc20 keepers and the denom store leaves are assumed contracts. The defect F2 (merged grants anchored too early) was found by this check and repaired (fix: commit). Backing over arbitrary histories follows only by induction over the per-operation contracts and is not proved as a whole."),
}

NA_FINAL = {
 "C01": "A two-run hyperproperty over whole block histories and independently constructed processes; no pre/postcondition on a function of /repo states it (DESIGN.md §9).",
 "C15": "The invariants are SDK predicates over the full multistore after arbitrary histories; their bodies and most of the code that must preserve them are outside /repo. The Haqq-specific steps are proved under C11-C14 (DESIGN.md §9).",
 "C20": "A statement about process lifetime and the database; function contracts have no notion of stop/restart, and the one in-memory field that could diverge has no non-test writer on this tree (DESIGN.md §9).",
}
NOT_YET = "not claimed: contracts for this property are not built yet in this session (DESIGN.md §11 build order); no check is registered rather than a weaker technique being substituted"

props = [json.loads(l) for l in open(os.path.join(VERIF, 'properties.jsonl'))]
hooks = subprocess.run(['git', '-C', '/repo', 'log', '--format=%H %s'], stdout=subprocess.PIPE, text=True).stdout.splitlines()
hook_commits = [l.split()[0] for l in hooks if 'verif hooks' in l]

m = {
 "version": 1,
 "setup_cmd": "cd /verif/engine && GOFLAGS=-mod=mod GOPROXY=off GOSUMDB=off GOTOOLCHAIN=local go build -o /verif/bin/govc ./cmd/govc",
 "hooks": {"guard": "verif",
           "enable": "Go build tag: -tags verif. The only hook files are comment-only contract files zz_contracts_verif.go (package clause + /*@ ... @*/ comments), compiled only with the tag; replay drivers enter packages through go test -overlay and are never written to /repo.",
           "baseline_off_cmd": base["cmd"], "source_commits": hook_commits, "add_only": True},
 "engines": [{"name": "govc", "path": "/verif/engine", "serves_properties": sorted(CLAIMED),
              "kind_free_text": "contract-based deductive verifier for Go written for this task: symbolic execution of go/ssa (NaiveForm) with loop invariants, modular callee contracts, ghost functions and inductive lemmas; obligations discharged by z3 4.8.12 / z3 5.1.0 / cvc5 1.0 raced per obligation"}],
 "checks": [], "not_applicable": [],
 "notes": "DESIGN.md describes the approach; known_findings.json lists fixed and recorded defects; seeded/ holds property-breaking changes used to test the checks.",
}
for p in props:
    pid = p["id"]
    if pid in CLAIMED:
        c = CLAIMED[pid]
        m["checks"].append({
            "property_id": pid,
            "quick_cmd": "./check %s quick" % pid,
            "thorough_cmd": "./check %s thorough" % pid,
            "evidence_file": "/verif/evidence/%s.json" % pid,
            "replay_cmd_template": "./check --replay {path}",
            "engine": "govc",
            "level_claimed": {"category": "proof", "text": c["text"], "design_ref": c["design"]},
            "level_note": c["note"],
            "technique": TECH,
        })
    else:
        m["not_applicable"].append({"property_id": pid, "reason": NA_FINAL.get(pid, NOT_YET)})
json.dump(m, open(os.path.join(VERIF, 'MANIFEST.json'), 'w'), indent=1)
print("claimed:", sorted(CLAIMED), "n/a:", len(m["not_applicable"]))
