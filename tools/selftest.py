#!/usr/bin/env python3
"""selftest.py [name-prefix ...]: must-fail corpus. Applies every seeded change under /verif/seeded/<name>/patch.diff to /repo
(one at a time), runs the quick check(s) recorded in its meta.json, undoes the change, and compares with the recorded outcome:
a change recorded as detected must make a check exit 1 with a VIOLATION line; anything else is reported. Run it after every
engine or lib-spec change. Refuses to run when /repo has uncommitted changes (it ends every step with git checkout -- .)."""
import json, os, subprocess, sys, time
VERIF = os.path.dirname(os.path.dirname(os.path.abspath(__file__)))
def sh(cmd, cwd=None):
    r = subprocess.run(cmd, shell=True, cwd=cwd, stdout=subprocess.PIPE, stderr=subprocess.STDOUT, text=True)
    return r.returncode, r.stdout
if sh("git -C /repo status --porcelain")[1].strip():
    sys.exit("refusing: /repo has uncommitted changes")
names = sorted(os.listdir(os.path.join(VERIF, "seeded")))
if len(sys.argv) > 1:
    names = [n for n in names if any(n.startswith(p) for p in sys.argv[1:])]
bad = 0
for n in names:
    d = os.path.join(VERIF, "seeded", n)
    meta = json.load(open(os.path.join(d, "meta.json")))
    rc, out = sh("git -C /repo apply %s/patch.diff" % d)
    if rc != 0:
        print("%-8s PATCH-DOES-NOT-APPLY (the code it changes has moved): %s" % (n, out.strip()[:200]))
        bad += 1
        continue
    t0 = time.time()
    hit = []
    try:
        for c in meta.get("checks", {meta["property"]: None}):
            rc, out = sh("./check %s quick" % c, cwd=VERIF)
            if rc == 1 and "VIOLATION" in out:
                hit.append(c)
            elif rc not in (0, 1):
                hit.append(c + ":ENGINE-ERROR")
    finally:
        sh("git -C /repo checkout -- .")
        sh("git -C %s checkout -- evidence" % VERIF)  # evidence of a run on a changed tree is not a record of the unchanged tree
    want = bool(meta.get("detected"))
    got = any(":" not in h for h in hit)
    status = "ok" if want == got else ("REGRESSION (was detected, now missed)" if want else "now detected (recorded as missed)")
    if want and not got:
        bad += 1
    print("%-8s %-45s recorded=%s now=%s %s (%.0fs)" % (n, status, "detected" if want else "missed", ",".join(hit) or "-", "", time.time() - t0))
sys.exit(1 if bad else 0)
