package main

import (
	"encoding/json"
	"flag"
	"fmt"
	"os"
	"path/filepath"
	"sort"
	"strings"
	"time"
)

type Config struct {
	Property  string   `json:"property"`
	Packages  []string `json:"packages"`  // go package patterns (relative to repo)
	LibSpecs  []string `json:"lib_specs"` // files or dirs
	Functions []string `json:"functions"` // function keys to verify
	Lemmas    []string `json:"lemmas"`    // lemma names ("*" = all declared in loaded contract files)
	Unfold    int      `json:"unfold_depth"`
	// contract files zz_contracts_verif.go are always loaded; zz_contracts_<tag>_verif.go only for the tags listed here
	// (contracts of different properties for the same package live in separate files and do not see each other)
	Tags []string `json:"contract_tags"`
	// clause labels (prefixes) of postconditions / call-site requires clauses that this run leaves out, or the only ones it
	// checks: several properties can share one contract file, each run deciding its own clauses. A clause that is left out
	// is neither checked nor assumed. Preconditions, safety, frame and canary obligations are never filtered.
	SkipLabels []string `json:"skip_labels"`
	OnlyLabels []string `json:"only_labels"`
}

type KnownFinding struct {
	Property   string          `json:"property"`
	Obligation string          `json:"obligation"`
	Witness    string          `json:"witness"`
	What       string          `json:"what"`
	Input      json.RawMessage `json:"input,omitempty"`
	Status     string          `json:"status"` // "known" | "fixed"
}

type Output struct {
	Property     string              `json:"property"`
	Functions    []string            `json:"functions_under_contract"`
	Lemmas       []string            `json:"lemmas"`
	Results      []*Result           `json:"results"`
	EngineErrors []string            `json:"engine_errors"`
	OpaqueCalls  map[string][]string `json:"opaque_calls"`
	LibSpecsUsed []string            `json:"lib_specs_used"`
	Inlined      []string            `json:"inlined"`
	Notes        []string            `json:"notes"`
	Trusted      []string            `json:"trusted"`
	LoadSeconds  float64             `json:"load_seconds"`
	GenSeconds   float64             `json:"gen_seconds"`
	SolveSeconds float64             `json:"solve_seconds"`
	SolverTime   map[string]float64  `json:"solver_time_s"`
}

func main() {
	cfgPath := flag.String("config", "", "property config json")
	repo := flag.String("repo", "/repo", "repository root")
	out := flag.String("out", "", "output json")
	work := flag.String("work", "", "work dir for smt files")
	tmo := flag.Int("timeout", 10, "per-obligation solver timeout (s)")
	par := flag.Int("par", 6, "obligations in flight")
	known := flag.String("known", "", "known findings json")
	dump := flag.String("dump", "", "dump SSA of function key and exit")
	agree := flag.Bool("agree", false, "put every proved obligation to all solvers and report disagreements (thorough tier)")
	flag.Parse()
	raw, err := os.ReadFile(*cfgPath)
	if err != nil {
		fatal("config: %v", err)
	}
	var cfg Config
	if err := json.Unmarshal(raw, &cfg); err != nil {
		fatal("config: %v", err)
	}
	if cfg.Unfold == 0 {
		cfg.Unfold = 2
	}
	t0 := time.Now()
	v := NewVerifier()
	v.skipLabels, v.onlyLabels = cfg.SkipLabels, cfg.OnlyLabels
	v.agree = *agree
	if err := v.Load(*repo, cfg.Packages, "verif"); err != nil {
		fatal("load: %v", err)
	}
	loadS := time.Since(t0).Seconds()
	if *dump != "" {
		fn := v.findFunction(*dump)
		if fn == nil {
			fatal("function %s not found", *dump)
		}
		fn.WriteTo(os.Stdout)
		for _, af := range fn.AnonFuncs {
			af.WriteTo(os.Stdout)
		}
		return
	}
	t1 := time.Now()
	// lib specs
	var libFiles []string
	for _, p := range cfg.LibSpecs {
		st, err := os.Stat(p)
		if err != nil {
			fatal("lib spec %s: %v", p, err)
		}
		if st.IsDir() {
			libFiles = append(libFiles, v.specFilesFor(p)...)
		} else {
			libFiles = append(libFiles, p)
		}
	}
	for _, f := range libFiles {
		if err := v.LoadSpecFile(f, "", true); err != nil {
			engineFail(*out, cfg.Property, fmt.Sprintf("lib spec: %v", err))
		}
	}
	// repo contract files (zz_contracts_verif.go in each loaded package)
	var contractLemmas []string
	for _, p := range v.pkgs {
		// the always-loaded zz_contracts_verif.go first, so that a tagged file whose name sorts before it can `extend` its contracts
		files := make([]string, 0, len(p.GoFiles))
		for _, f := range p.GoFiles {
			if filepath.Base(f) == "zz_contracts_verif.go" {
				files = append(files, f)
			}
		}
		for _, f := range p.GoFiles {
			if filepath.Base(f) != "zz_contracts_verif.go" {
				files = append(files, f)
			}
		}
		for _, f := range files {
			if isContractFile(filepath.Base(f), cfg.Tags) {
				before := len(v.lemmaOrder)
				if err := v.LoadSpecFile(f, p.PkgPath, false); err != nil {
					engineFail(*out, cfg.Property, fmt.Sprintf("contract file: %v", err))
				}
				contractLemmas = append(contractLemmas, v.lemmaOrder[before:]...)
			}
		}
	}
	if err := v.ApplyPendingExtends(); err != nil {
		engineFail(*out, cfg.Property, fmt.Sprintf("contract file: %v", err))
	}
	// known findings
	var kfs []KnownFinding
	if *known != "" {
		if raw, err := os.ReadFile(*known); err == nil {
			if err := json.Unmarshal(raw, &kfs); err != nil {
				fatal("known findings: %v", err)
			}
		}
	}
	v.known = map[string]KnownFinding{}
	for _, k := range kfs {
		// a finding is identified by its obligation; the same function may be under contract for several properties
		if k.Status == "known" {
			v.known[k.Obligation] = k
		}
	}
	// lemmas
	wantLemma := map[string]bool{}
	for _, l := range cfg.Lemmas {
		wantLemma[l] = true
	}
	earlier := map[string]bool{}
	var lemmasDone []string
	for _, name := range v.lemmaOrder {
		if wantLemma["*"] || wantLemma[name] {
			v.VerifyLemma(v.lemmas[name], earlier)
			lemmasDone = append(lemmasDone, name)
		}
		earlier[name] = true
	}
	for _, key := range cfg.Functions {
		spec := v.specs[key]
		if spec == nil {
			v.engineErrors = append(v.engineErrors, fmt.Sprintf("%s: no contract found", key))
			continue
		}
		if spec.Trusted {
			v.notes[key+": contract is trusted (assumed, not verified)"] = true
			continue
		}
		v.VerifyFunction(key)
	}
	// a contract borrowed from an implementation (`sameas`) is only as good as the verification of that implementation
	for k, target := range v.sameAsUsed {
		verified := false
		for _, f := range cfg.Functions {
			if f == target {
				verified = true
			}
		}
		if t := v.specs[target]; t != nil && t.Trusted {
			verified = true // a trusted leaf: already reported as an assumption
		}
		if !verified {
			v.engineErrors = append(v.engineErrors, fmt.Sprintf("%s: sameas %s, but that function is not verified in this configuration", k, target))
		}
	}
	for target, k := range v.dispatchUsed {
		verified := false
		for _, f := range cfg.Functions {
			if f == target {
				verified = true
			}
		}
		if !verified {
			v.engineErrors = append(v.engineErrors, fmt.Sprintf("%s: dispatch %s, but that function is not verified in this configuration", k, target))
		}
	}
	v.splitKnown()
	genS := time.Since(t1).Seconds()
	t2 := time.Now()
	wd := *work
	if wd == "" {
		wd = filepath.Join(os.TempDir(), "govc-"+cfg.Property)
	}
	os.RemoveAll(wd)
	results := v.Discharge(wd, *tmo, *par, cfg.Unfold)
	solveS := time.Since(t2).Seconds()
	o := &Output{Property: cfg.Property, Functions: v.funcsDone, Lemmas: lemmasDone, Results: results, EngineErrors: v.engineErrors,
		OpaqueCalls: map[string][]string{}, LoadSeconds: loadS, GenSeconds: genS, SolveSeconds: solveS, SolverTime: map[string]float64{}}
	for _, r := range results {
		o.SolverTime[r.Solver] += r.Seconds
		if k, ok := v.knownSplit[r.Name]; ok {
			r.Known = k
		}
	}
	for f, m := range v.opaqueCalls {
		var ks []string
		for k, n := range m {
			ks = append(ks, fmt.Sprintf("%s x%d", k, n))
		}
		sort.Strings(ks)
		o.OpaqueCalls[f] = ks
	}
	for k := range v.usedLibSpecs {
		o.LibSpecsUsed = append(o.LibSpecsUsed, k)
	}
	sort.Strings(o.LibSpecsUsed)
	for k := range v.inlined {
		o.Inlined = append(o.Inlined, k)
	}
	sort.Strings(o.Inlined)
	for k := range v.notes {
		o.Notes = append(o.Notes, k)
	}
	sort.Strings(o.Notes)
	for k, s := range v.specs {
		if s.Trusted && !s.Lib {
			o.Trusted = append(o.Trusted, k)
		}
	}
	for _, l := range v.lemmas {
		if l.Trusted {
			o.Trusted = append(o.Trusted, "lemma "+l.Name)
		}
	}
	sort.Strings(o.Trusted)
	js, _ := json.MarshalIndent(o, "", " ")
	if *out != "" {
		os.WriteFile(*out, js, 0o644)
	}
	// summary on stderr
	np, nf, nok, nvac, nerr := 0, 0, 0, 0, 0
	for _, r := range results {
		switch r.Status {
		case "proved":
			np++
		case "failed":
			nf++
			fmt.Fprintf(os.Stderr, "FAILED %s (%s, %s %.1fs) %s\n", r.Name, r.Answer, r.Solver, r.Seconds, r.Known)
		case "ok":
			nok++
		case "vacuous":
			nvac++
			fmt.Fprintf(os.Stderr, "VACUOUS %s\n", r.Name)
		case "error":
			nerr++
			fmt.Fprintf(os.Stderr, "SOLVER-ERROR %s: %s\n", r.Name, truncate(r.Output, 600))
		}
	}
	for _, e := range v.engineErrors {
		fmt.Fprintf(os.Stderr, "ENGINE-ERROR %s\n", e)
	}
	fmt.Fprintf(os.Stderr, "%s: %d functions, %d lemmas, %d obligations: proved=%d failed=%d covers-ok=%d vacuous=%d solver-errors=%d engine-errors=%d (load %.1fs gen %.1fs solve %.1fs)\n",
		cfg.Property, len(v.funcsDone), len(lemmasDone), len(results), np, nf, nok, nvac, nerr, len(v.engineErrors), loadS, genS, solveS)
	if len(v.engineErrors) > 0 || nerr > 0 || nvac > 0 {
		os.Exit(2)
	}
	if nf > 0 {
		os.Exit(1)
	}
}

func fatal(f string, a ...interface{}) {
	fmt.Fprintf(os.Stderr, "govc: "+f+"\n", a...)
	os.Exit(2)
}

func engineFail(out, prop, msg string) {
	fmt.Fprintf(os.Stderr, "ENGINE-ERROR %s\n", msg)
	if out != "" {
		js, _ := json.MarshalIndent(&Output{Property: prop, EngineErrors: []string{msg}}, "", " ")
		os.WriteFile(out, js, 0o644)
	}
	os.Exit(2)
}

// splitKnown splits obligations that have a known finding into the part under the witness predicate
// (expected to fail; reported as KNOWN-FINDING) and the part under its negation (must be proved).
func (v *Verifier) splitKnown() {
	v.knownSplit = map[string]string{}
	var out []*Obligation
	for _, o := range v.obligations {
		k, ok := v.known[o.Name]
		if !ok || o.Goal == nil {
			out = append(out, o)
			continue
		}
		fc := v.funcCtxs[o.Func]
		if fc == nil {
			v.engineErrors = append(v.engineErrors, fmt.Sprintf("known finding for %s: no function context", o.Name))
			out = append(out, o)
			continue
		}
		e, err := ParseExpr(k.Witness)
		if err != nil {
			v.engineErrors = append(v.engineErrors, fmt.Sprintf("known finding for %s: witness: %v", o.Name, err))
			out = append(out, o)
			continue
		}
		env := fc.env(fc.entry, fc.entry)
		env.vars = fc.paramVars()
		if o.wenv != nil {
			env = o.wenv
		}
		w, err := env.EvalBool(e)
		if err != nil {
			v.engineErrors = append(v.engineErrors, fmt.Sprintf("known finding for %s: witness: %v", o.Name, err))
			out = append(out, o)
			continue
		}
		o1 := *o
		o1.Name = o.Name + "[known]"
		o1.Assume = append(append([]*Term{}, o.Assume...), w)
		o2 := *o
		o2.Name = o.Name + "[else]"
		o2.Assume = append(append([]*Term{}, o.Assume...), v.c.Not(w))
		v.knownSplit[o1.Name] = "known:" + strings.TrimSpace(k.What)
		v.knownSplit[o2.Name] = "else"
		out = append(out, &o1, &o2)
	}
	v.obligations = out
}

func isContractFile(base string, tags []string) bool {
	if base == "zz_contracts_verif.go" {
		return true
	}
	if !strings.HasPrefix(base, "zz_contracts_") || !strings.HasSuffix(base, "_verif.go") {
		return false
	}
	tag := strings.TrimSuffix(strings.TrimPrefix(base, "zz_contracts_"), "_verif.go")
	for _, t := range tags {
		if t == tag {
			return true
		}
	}
	return false
}
