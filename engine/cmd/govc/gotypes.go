package main

// Mapping of Go types to SMT sorts.

import (
	"fmt"
	"go/types"
	"math/big"
	"strings"
)

type TypeMap struct {
	c        *TermCtx
	abstract map[string]*AbstractType // by Go type string
	cache    map[string]*Sort         // by Go type string
	dataName map[string]string        // sanitized-name uniqueness
	goOf     map[*Sort]types.Type     // representative Go type of data sorts
	SStr     *Sort
	zeroMemo map[*Sort]*Term
	nilNotes map[string]bool
}

type AbstractType struct {
	GoType   string
	Sort     *Sort
	ListNil  string // specfunc name giving the empty value (for list-constructed abstract slices)
	ListCons string // specfunc name cons(list, elem)
	Opaque   bool   // values carry no tracked heap reachability
	ZeroFn   string // specfunc/const name for zero value
	SeqLen   string // uf giving the number of list elements (sequence view of an abstract list)
	SeqAt    string // uf giving the i-th list element
}

func NewTypeMap(c *TermCtx) *TypeMap {
	tm := &TypeMap{c: c, abstract: map[string]*AbstractType{}, cache: map[string]*Sort{}, dataName: map[string]string{},
		goOf: map[*Sort]types.Type{}, zeroMemo: map[*Sort]*Term{}, nilNotes: map[string]bool{}}
	tm.SStr = c.Sorts.Unint("Str")
	return tm
}

func typeKey(t types.Type) string {
	return types.TypeString(t, nil)
}

func sanitize(s string) string {
	var sb strings.Builder
	for _, r := range s {
		if r >= 'a' && r <= 'z' || r >= 'A' && r <= 'Z' || r >= '0' && r <= '9' || r == '_' {
			sb.WriteRune(r)
		} else {
			sb.WriteRune('_')
		}
	}
	return sb.String()
}

func (tm *TypeMap) uniqueDataName(short, full string) string {
	name := short
	for i := 2; ; i++ {
		prev, ok := tm.dataName[name]
		if ok && prev == full {
			return name
		}
		// a name already taken by a sort that is not the datatype of a Go struct (e.g. the lib alias `sort Dec = Int` against the
		// Go struct precompiles/common.Dec) must not be reused: Sorts.Data would silently return that other sort
		if !ok && tm.c.Sorts.Lookup(name) == nil {
			tm.dataName[name] = full
			return name
		}
		name = fmt.Sprintf("%s_%d", short, i)
	}
}

func (tm *TypeMap) SortOf(t types.Type) *Sort {
	key := typeKey(t)
	if s, ok := tm.cache[key]; ok {
		return s
	}
	if a, ok := tm.abstract[key]; ok {
		tm.cache[key] = a.Sort
		return a.Sort
	}
	var s *Sort
	switch tt := t.(type) {
	case *types.Named:
		if _, isIface := tt.Underlying().(*types.Interface); isIface {
			s = SInt
			break
		}
		if st, ok := tt.Underlying().(*types.Struct); ok {
			short := tt.Obj().Name()
			if tt.TypeArgs() != nil && tt.TypeArgs().Len() > 0 {
				short = sanitize(key)
			}
			name := tm.uniqueDataName(sanitize(short), key)
			ds, fresh := tm.c.Sorts.Data(name)
			tm.cache[key] = ds
			tm.goOf[ds] = t
			if fresh {
				tm.fillStruct(ds, st)
			}
			return ds
		}
		s = tm.SortOf(tt.Underlying())
	case *types.Alias:
		s = tm.SortOf(types.Unalias(tt))
	case *types.Basic:
		switch {
		case tt.Info()&types.IsBoolean != 0:
			s = SBool
		case tt.Info()&types.IsInteger != 0:
			s = SInt
		case tt.Info()&types.IsString != 0:
			s = tm.SStr
		case tt.Kind() == types.UnsafePointer:
			s = SInt
		case tt.Kind() == types.UntypedNil:
			s = SInt
		case tt.Info()&types.IsFloat != 0:
			s = tm.c.Sorts.Unint("Float")
		default:
			s = tm.c.Sorts.Unint("Unsupported_" + sanitize(tt.Name()))
		}
	case *types.Pointer:
		s = SInt
	case *types.Interface, *types.Signature, *types.Chan:
		s = SInt
	case *types.Slice:
		s = tm.RawSliceSort(tt)
	case *types.Array:
		s = tm.c.Sorts.Array(SInt, tm.SortOf(tt.Elem()))
	case *types.Struct:
		name := tm.uniqueDataName("Anon_"+sanitize(fmt.Sprintf("%x", hashStr(key))), key)
		ds, fresh := tm.c.Sorts.Data(name)
		tm.cache[key] = ds
		tm.goOf[ds] = t
		if fresh {
			tm.fillStruct(ds, tt)
		}
		return ds
	case *types.Map:
		ks := tm.SortOf(tt.Key())
		vs := tm.SortOf(tt.Elem())
		name := "Map_" + sanitize(ks.Name) + "_" + sanitize(vs.Name)
		ds, fresh := tm.c.Sorts.Data(name)
		if fresh {
			ds.Fields = []DField{{"dom", tm.c.Sorts.Array(ks, SBool), name + "_dom"}, {"val", tm.c.Sorts.Array(ks, vs), name + "_val"}}
		}
		tm.goOf[ds] = t
		s = ds
	case *types.Tuple:
		name := "Tuple"
		var fs []DField
		for i := 0; i < tt.Len(); i++ {
			fsrt := tm.SortOf(tt.At(i).Type())
			name += "_" + sanitize(fsrt.Name)
			fs = append(fs, DField{fmt.Sprint(i), fsrt, ""})
		}
		ds, fresh := tm.c.Sorts.Data(name)
		if fresh {
			for i := range fs {
				fs[i].Sel = fmt.Sprintf("%s_%d", name, i)
			}
			ds.Fields = fs
		}
		s = ds
	case *types.TypeParam:
		s = SInt
	default:
		s = tm.c.Sorts.Unint("Unsupported_" + sanitize(key))
	}
	tm.cache[key] = s
	return s
}

// RawSliceSort is the concrete (arr,len) representation of a slice type, regardless of any abstract
// sort the (named) slice type is mapped to.
func (tm *TypeMap) RawSliceSort(tt *types.Slice) *Sort {
	es := tm.SortOf(tt.Elem())
	name := "Slice_" + sanitize(es.Name)
	ds, fresh := tm.c.Sorts.Data(name)
	if fresh {
		ds.Fields = []DField{{"arr", tm.c.Sorts.Array(SInt, es), name + "_arr"}, {"len", SInt, name + "_len"}}
	}
	if _, ok := tm.goOf[ds]; !ok {
		tm.goOf[ds] = tt
	}
	return ds
}

func hashStr(s string) uint32 {
	var h uint32 = 2166136261
	for i := 0; i < len(s); i++ {
		h ^= uint32(s[i])
		h *= 16777619
	}
	return h
}

func (tm *TypeMap) fillStruct(ds *Sort, st *types.Struct) {
	fs := make([]DField, st.NumFields())
	for i := 0; i < st.NumFields(); i++ {
		f := st.Field(i)
		fs[i] = DField{Name: f.Name(), Sort: tm.SortOf(f.Type()), Sel: ds.Name + "_" + sanitize(f.Name())}
	}
	ds.Fields = fs
	if len(fs) == 0 {
		// SMT datatypes need at least one field-less constructor: fine, mk_X with no args
	}
}

// ZeroOf returns the zero value term of a sort.
func (tm *TypeMap) ZeroOf(s *Sort) *Term {
	if z, ok := tm.zeroMemo[s]; ok {
		return z
	}
	var z *Term
	switch s.Kind {
	case KBool:
		z = tm.c.Bool(false)
	case KInt:
		z = tm.c.Int(0)
	case KUnint:
		z = tm.c.Const("zero_"+s.Name, s)
		if s.Name == "Float" {
			// the zero value of a floating-point variable is the value of the literal 0 (see floatLit)
			z = tm.c.Const("floatlit_0", s)
		}
	case KArray:
		z = tm.c.ConstArray(s, tm.ZeroOf(s.Elem))
	case KData:
		args := make([]*Term, len(s.Fields))
		for i, f := range s.Fields {
			args[i] = tm.ZeroOf(f.Sort)
		}
		z = tm.c.App(s.Ctor, s, args...)
	}
	tm.zeroMemo[s] = z
	return z
}

// int ranges

func intRange(t types.Type) (lo, hi *big.Int, ok bool) {
	b, isB := t.Underlying().(*types.Basic)
	if !isB || b.Info()&types.IsInteger == 0 {
		return nil, nil, false
	}
	pow := func(n uint) *big.Int { return new(big.Int).Lsh(big.NewInt(1), n) }
	signed := func(n uint) (*big.Int, *big.Int, bool) {
		return new(big.Int).Neg(pow(n - 1)), new(big.Int).Sub(pow(n-1), big.NewInt(1)), true
	}
	unsigned := func(n uint) (*big.Int, *big.Int, bool) {
		return big.NewInt(0), new(big.Int).Sub(pow(n), big.NewInt(1)), true
	}
	switch b.Kind() {
	case types.Int, types.Int64:
		return signed(64)
	case types.Int32:
		return signed(32)
	case types.Int16:
		return signed(16)
	case types.Int8:
		return signed(8)
	case types.Uint, types.Uint64, types.Uintptr:
		return unsigned(64)
	case types.Uint32:
		return unsigned(32)
	case types.Uint16:
		return unsigned(16)
	case types.Uint8:
		return unsigned(8)
	}
	return nil, nil, false
}

func isUnsigned(t types.Type) bool {
	b, ok := t.Underlying().(*types.Basic)
	return ok && b.Info()&types.IsUnsigned != 0
}

func isIntType(t types.Type) bool {
	b, ok := t.Underlying().(*types.Basic)
	return ok && b.Info()&types.IsInteger != 0
}

func pointee(t types.Type) types.Type {
	if p, ok := t.Underlying().(*types.Pointer); ok {
		return p.Elem()
	}
	return nil
}
