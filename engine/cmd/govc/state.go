package main

// Symbolic state, locations and values.

import (
	"fmt"
	"go/types"

	"golang.org/x/tools/go/ssa"
)

type engineError struct{ msg string }

func (e engineError) Error() string { return e.msg }

func unsupported(format string, a ...interface{}) {
	panic(engineError{fmt.Sprintf(format, a...)})
}

type PathElem struct {
	Field int   // >=0 : struct field index
	Idx   *Term // array / slice element index
	Slice bool  // element of a slice value (through .arr)
}

type Loc struct {
	Cell    *ssa.Alloc // cell root
	Ref     *Term      // heap root
	HeapKey string
	Root    *Term // read-only value root (no cell/heap)
	Path    []PathElem
	Sort    *Sort      // sort of the addressed value
	GoT     types.Type // Go type of the addressed value
	RSort   *Sort      // sort of root value
	// element of an abstract list (sequence view) held in a variable: a store replaces the element through the spec function
	// setelem_<sort>(list, index, element) and writes the new list back to AbsBase
	AbsBase *Loc
	AbsIdx  *Term
	AbsSet  *specFuncDef
	AbsAt   string
}

func (l *Loc) extend(pe PathElem, s *Sort, gt types.Type) *Loc {
	n := *l
	n.Path = append(append([]PathElem{}, l.Path...), pe)
	n.Sort = s
	n.GoT = gt
	return &n
}

type Closure struct {
	Fn       *ssa.Function
	Bindings []Val
}

type Val struct {
	T      *Term
	Loc    *Loc
	Clo    *Closure
	Tuple  []Val
	Origin *Loc // where a loaded value came from (write-back / live element access)
	GoT    types.Type
}

type State struct {
	cells   map[*ssa.Alloc]*Term
	clos    map[*ssa.Alloc]*Closure
	globals map[string]*Term
	pc      []*Term
	dead    bool
}

func newState() *State {
	return &State{cells: map[*ssa.Alloc]*Term{}, clos: map[*ssa.Alloc]*Closure{}, globals: map[string]*Term{}}
}

func (s *State) clone() *State {
	n := &State{cells: make(map[*ssa.Alloc]*Term, len(s.cells)), clos: make(map[*ssa.Alloc]*Closure, len(s.clos)),
		globals: make(map[string]*Term, len(s.globals)), pc: append([]*Term{}, s.pc...), dead: s.dead}
	for k, v := range s.cells {
		n.cells[k] = v
	}
	for k, v := range s.clos {
		n.clos[k] = v
	}
	for k, v := range s.globals {
		n.globals[k] = v
	}
	return n
}

func (s *State) assume(c *TermCtx, t *Term) {
	if t.IsTrue() {
		return
	}
	if t.IsFalse() {
		s.dead = true
	}
	if t.Op == "app" && t.Name == "and" {
		for _, a := range t.Args {
			s.assume(c, a)
		}
		return
	}
	for _, p := range s.pc {
		if p == t {
			return
		}
	}
	s.pc = append(s.pc, t)
}

// ---- globals (heaps, world variables, allocation counter)

func (v *Verifier) globalSort(key string) *Sort {
	if s, ok := v.globalSorts[key]; ok {
		return s
	}
	unsupported("unknown global %q", key)
	return nil
}

func (v *Verifier) getGlobal(st *State, key string) *Term {
	if t, ok := st.globals[key]; ok {
		return t
	}
	return v.c.Const(key+"@0", v.globalSort(key))
}

func (v *Verifier) heapKeyFor(elem types.Type) string {
	k := "H_" + sanitize(shortTypeName(elem))
	es := v.tm.SortOf(elem)
	want := v.c.Sorts.Array(SInt, es)
	if old, ok := v.globalSorts[k]; ok && old != want {
		k = "H_" + sanitize(typeKey(elem))
	}
	v.globalSorts[k] = want
	if v.heapTypes == nil {
		v.heapTypes = map[string]types.Type{}
	}
	if _, ok := v.heapTypes[k]; !ok {
		v.heapTypes[k] = elem
	}
	return k
}

func shortTypeName(t types.Type) string {
	return types.TypeString(t, func(p *types.Package) string { return p.Name() })
}

// ---- reading / writing locations

func (v *Verifier) rootValue(st *State, l *Loc) *Term {
	switch {
	case l.Cell != nil:
		t, ok := st.cells[l.Cell]
		if !ok {
			// cell not yet initialised on this path (alloc executed in a block not dominating?)
			t = v.tm.ZeroOf(l.RSort)
		}
		return t
	case l.Ref != nil:
		return v.c.Select(v.getGlobal(st, l.HeapKey), l.Ref)
	default:
		return l.Root
	}
}

func (v *Verifier) readPath(t *Term, path []PathElem) *Term {
	for _, pe := range path {
		switch {
		case pe.Idx != nil && pe.Slice:
			t = v.c.Select(v.c.FieldOf(t, 0), pe.Idx)
		case pe.Idx != nil:
			t = v.c.Select(t, pe.Idx)
		default:
			t = v.c.FieldOf(t, pe.Field)
		}
	}
	return t
}

func (v *Verifier) writePath(t *Term, path []PathElem, x *Term) *Term {
	if len(path) == 0 {
		if x.Sort != t.Sort {
			// a list built element by element as a concrete slice (`rawslice`) stored where the abstract list sort is expected:
			// the abstract value is an uninterpreted function of the slice (nothing is assumed about it)
			if isSliceSort(x.Sort) && !isSliceSort(t.Sort) {
				for _, at := range v.tm.abstract {
					if at.Sort == t.Sort && at.ListNil != "" {
						v.notes["a rawslice value stored into a field of abstract list sort "+t.Sort.Name+" is read as the uninterpreted value fromraw(slice)"] = true
						return v.c.UF("fromraw_"+sanitize(t.Sort.Name), t.Sort, x)
					}
				}
			}
			unsupported("store sort mismatch: %s into %s", x.Sort.Name, t.Sort.Name)
		}
		return x
	}
	pe := path[0]
	switch {
	case pe.Idx != nil && pe.Slice:
		arr := v.c.FieldOf(t, 0)
		na := v.c.Store(arr, pe.Idx, v.writePath(v.c.Select(arr, pe.Idx), path[1:], x))
		return v.c.WithField(t, 0, na)
	case pe.Idx != nil:
		return v.c.Store(t, pe.Idx, v.writePath(v.c.Select(t, pe.Idx), path[1:], x))
	default:
		return v.c.WithField(t, pe.Field, v.writePath(v.c.FieldOf(t, pe.Field), path[1:], x))
	}
}

func (v *Verifier) load(st *State, l *Loc) *Term {
	return v.readPath(v.rootValue(st, l), l.Path)
}

func (v *Verifier) store(st *State, l *Loc, x *Term) {
	switch {
	case l.Cell != nil:
		st.cells[l.Cell] = v.writePath(v.rootValue(st, l), l.Path, x)
	case l.Ref != nil:
		h := v.getGlobal(st, l.HeapKey)
		st.globals[l.HeapKey] = v.c.Store(h, l.Ref, v.writePath(v.c.Select(h, l.Ref), l.Path, x))
	case l.AbsBase != nil:
		list := v.load(st, l.AbsBase)
		elem := v.c.App(l.AbsAt, l.RSort, list, l.AbsIdx)
		env := &Env{v: v, vars: map[string]SV{}, st: st}
		sv, err := env.applySpecFunc(l.AbsSet, []SV{{T: list}, {T: l.AbsIdx}, {T: v.writePath(elem, l.Path, x)}})
		if err != nil {
			panic(specError{err.Error()})
		}
		v.store(st, l.AbsBase, sv.T)
	default:
		unsupported("store through a read-only value location")
	}
}

// newRef allocates a fresh reference.
func (v *Verifier) newRef(st *State) *Term {
	a := v.getGlobal(st, "$alloc")
	st.globals["$alloc"] = v.c.Arith("+", a, v.c.Int(1))
	v.standaloneRef(st, a)
	return a
}
