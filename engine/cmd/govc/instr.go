package main

// Instruction semantics.

import (
	"fmt"
	"go/token"
	"go/types"
	"math/big"
	"strings"

	"golang.org/x/tools/go/ssa"
)

func (fc *FuncCtx) execInstr(fr *Frame, st *State, ins ssa.Instruction) {
	v := fc.v
	c := v.c
	switch t := ins.(type) {
	case *ssa.DebugRef:
		return
	case *ssa.Alloc:
		elem := t.Type().(*types.Pointer).Elem()
		so := v.tm.SortOf(elem)
		if fc.isCell(t) {
			so = fc.cellSort(t)
			st.cells[t] = v.tm.ZeroOf(so)
			delete(st.clos, t)
			fr.vals[t] = Val{Loc: &Loc{Cell: t, Sort: so, GoT: elem, RSort: so}, GoT: t.Type()}
			return
		}
		ref := v.newRef(st)
		hk := v.heapKeyFor(elem)
		st.globals[hk] = c.Store(v.getGlobal(st, hk), ref, v.tm.ZeroOf(so))
		fr.vals[t] = Val{T: ref, GoT: t.Type()}
		fc.heapAllocs[t] = ref
	case *ssa.Store:
		loc := fc.asLoc(fr, st, t.Addr, t.Pos())
		val := fc.valOf(fr, t.Val)
		if val.Clo != nil {
			if loc.Cell == nil || len(loc.Path) > 0 {
				unsupported("closure stored outside a plain local variable")
			}
			st.clos[loc.Cell] = val.Clo
			return
		}
		fc.noteParamMutation(loc)
		x := v.asTerm(st, val)
		if loc.Cell != nil && len(loc.Path) == 0 && x.Sort != loc.Sort && isSliceSort(loc.Sort) {
			x = fc.absToRaw(st, x, t.Val.Type(), loc.Sort)
		}
		v.store(st, loc, x)
	case *ssa.UnOp:
		fc.execUnOp(fr, st, t)
	case *ssa.BinOp:
		fr.vals[t] = Val{T: fc.binop(fr, st, t), GoT: t.Type()}
	case *ssa.Call:
		fr.vals[t] = fc.execCall(fr, st, t.Common(), t)
	case *ssa.Defer:
		if deferredClosureWrites(t) {
			// a deferred function literal that writes captured variables changes what the caller sees: it is executed in place at
			// every RunDefers of this invocation. Supported when the defer statement is in the entry block (executed exactly
			// once, before any return) and the literal takes no arguments; panics are not control flow in this model.
			if t.Block().Index != 0 || len(t.Call.Args) != 0 {
				unsupported("deferred closure writes a captured variable (defer statement outside the entry block or with arguments)")
			}
			fr.defers = append(fr.defers, t)
			return
		}
		v.notes[fmt.Sprintf("%s: deferred call at %s is not executed by the model", fc.key, v.fset.Position(t.Pos()))] = true
	case *ssa.RunDefers:
		for i := len(fr.defers) - 1; i >= 0; i-- {
			d := fr.defers[i]
			fc.execCall(fr, st, d.Common(), d)
			if st.dead {
				return
			}
		}
		return
	case *ssa.ChangeType:
		x := fc.valOf(fr, t.X)
		if x.Clo != nil {
			fr.vals[t] = x
			return
		}
		xt := v.asTerm(st, x)
		if xt.Sort != v.tm.SortOf(t.Type()) {
			// a named type with an abstract sort converted to / from its underlying representation (sdk.AccAddress <-> []byte):
			// the representation function is uninterpreted (the same symbol for every conversion of that pair of sorts)
			_, absFrom := v.tm.abstract[typeKey(t.X.Type())]
			_, absTo := v.tm.abstract[typeKey(t.Type())]
			if absFrom || absTo {
				ts := v.tm.SortOf(t.Type())
				fr.vals[t] = Val{T: v.c.UF("conv_"+sanitize(xt.Sort.Name)+"_to_"+sanitize(ts.Name), ts, xt), GoT: t.Type()}
				return
			}
			unsupported("changetype between different sorts %s -> %s", xt.Sort.Name, v.tm.SortOf(t.Type()).Name)
		}
		fr.vals[t] = Val{T: xt, GoT: t.Type(), Origin: x.Origin}
	case *ssa.ChangeInterface:
		fr.vals[t] = Val{T: v.asTerm(st, fc.valOf(fr, t.X)), GoT: t.Type()}
	case *ssa.Convert:
		fr.vals[t] = Val{T: fc.convert(fr, st, t), GoT: t.Type()}
	case *ssa.Extract:
		tv := fc.valOf(fr, t.Tuple)
		if tv.Tuple == nil || t.Index >= len(tv.Tuple) {
			unsupported("extract from non-tuple")
		}
		fr.vals[t] = tv.Tuple[t.Index]
	case *ssa.Field:
		x := v.asTerm(st, fc.valOf(fr, t.X))
		if x.Sort.Kind != KData {
			unsupported("field of abstract value %s", x.Sort.Name)
		}
		ft := c.FieldOf(x, t.Field)
		fr.vals[t] = Val{T: ft, GoT: t.Type()}
		v.assumeTyped(st, ft, t.Type(), nil)
	case *ssa.FieldAddr:
		base := fc.asLoc(fr, st, t.X, t.Pos())
		if base.Sort.Kind != KData {
			unsupported("field address inside abstract value of sort %s (%s)", base.Sort.Name, t.X.Type())
		}
		stt := pointee(t.X.Type()).Underlying().(*types.Struct)
		ft := stt.Field(t.Field).Type()
		fr.vals[t] = Val{Loc: base.extend(PathElem{Field: t.Field}, base.Sort.Fields[t.Field].Sort, ft), GoT: t.Type()}
	case *ssa.IndexAddr:
		fc.execIndexAddr(fr, st, t)
	case *ssa.Index:
		x := v.asTerm(st, fc.valOf(fr, t.X))
		i := v.asTerm(st, fc.valOf(fr, t.Index))
		if x.Sort.Kind != KArray {
			unsupported("index of %s", x.Sort.Name)
		}
		if at, ok := t.X.Type().Underlying().(*types.Array); ok {
			fc.safety(st, "index", c.And(c.Cmp("<=", c.Int(0), i), c.Cmp("<", i, c.Int(at.Len()))), t.Pos(), "array index in range")
		}
		fr.vals[t] = Val{T: c.Select(x, i), GoT: t.Type()}
	case *ssa.MakeClosure:
		fn := t.Fn.(*ssa.Function)
		cl := &Closure{Fn: fn}
		for _, b := range t.Bindings {
			cl.Bindings = append(cl.Bindings, fc.valOf(fr, b))
		}
		fr.vals[t] = Val{Clo: cl, GoT: t.Type()}
	case *ssa.MakeInterface:
		x := fc.valOf(fr, t.X)
		xt := v.asTerm(st, x)
		fr.vals[t] = Val{T: v.box(st, xt, t.X.Type()), GoT: t.Type()}
	case *ssa.TypeAssert:
		fc.execTypeAssert(fr, st, t)
	case *ssa.MakeSlice:
		so := v.tm.SortOf(t.Type())
		n := v.asTerm(st, fc.valOf(fr, t.Len))
		fc.safety(st, "makeslice", c.Cmp("<=", c.Int(0), n), t.Pos(), "make: non-negative length")
		if !isSliceSort(so) {
			// abstract list type: make(T, 0, n) is the empty value
			if at, ok := v.tm.abstract[typeKey(t.Type())]; ok && at.ListNil != "" && n.Op == "int" && n.IntVal.Sign() == 0 {
				fr.vals[t] = Val{T: v.listNil(at), GoT: t.Type()}
				return
			}
			// make(T, n) assigned to a `rawslice` variable: the concrete slice of n zero elements
			if sl, isSl := t.Type().Underlying().(*types.Slice); isSl && fc.spec != nil && len(fc.spec.RawSlice) > 0 {
				onlyRaw := t.Referrers() != nil && len(*t.Referrers()) > 0
				if onlyRaw {
					for _, r := range *t.Referrers() {
						switch rr := r.(type) {
						case *ssa.DebugRef:
						case *ssa.Store:
							a, isAlloc := rr.Addr.(*ssa.Alloc)
							if !(isAlloc && rr.Val == t && fc.spec.RawSlice[a.Comment] && a.Parent() == fc.fn) {
								onlyRaw = false
							}
						default:
							onlyRaw = false
						}
					}
				}
				if onlyRaw {
					raw := v.tm.RawSliceSort(sl)
					fr.vals[t] = Val{T: c.Ctor(raw, v.tm.ZeroOf(raw.Fields[0].Sort), n), GoT: t.Type()}
					return
				}
			}
			unsupported("make of abstract type %s", t.Type())
		}
		fr.vals[t] = Val{T: c.Ctor(so, v.tm.ZeroOf(so.Fields[0].Sort), n), GoT: t.Type()}
	case *ssa.Slice:
		fc.execSlice(fr, st, t)
	case *ssa.MakeMap:
		so := v.tm.SortOf(t.Type())
		fr.vals[t] = Val{T: v.tm.ZeroOf(so), GoT: t.Type()}
	case *ssa.MapUpdate:
		mv := fc.valOf(fr, t.Map)
		if mv.Origin == nil {
			// composite literal `map[K]V{k: v, ...}`: go/ssa emits MakeMap followed by MapUpdates on the MakeMap register
			// before the map is stored anywhere - the fresh map has no alias yet, so the register's value is updated in place
			if mk, ok := t.Map.(*ssa.MakeMap); ok && freshMapLiteral(mk, t) && mv.T != nil {
				k := v.asTerm(st, fc.valOf(fr, t.Key))
				val := v.asTerm(st, fc.valOf(fr, t.Value))
				nm := c.Ctor(mv.T.Sort, c.Store(c.FieldOf(mv.T, 0), k, c.Bool(true)), c.Store(c.FieldOf(mv.T, 1), k, val))
				fr.vals[mk] = Val{T: nm, GoT: mk.Type()}
				return
			}
			unsupported("map update on a map value without a variable origin")
		}
		m := v.load(st, mv.Origin)
		k := v.asTerm(st, fc.valOf(fr, t.Key))
		val := v.asTerm(st, fc.valOf(fr, t.Value))
		nm := c.Ctor(m.Sort, c.Store(c.FieldOf(m, 0), k, c.Bool(true)), c.Store(c.FieldOf(m, 1), k, val))
		v.store(st, mv.Origin, nm)
		v.notes["maps are modelled as values bound to the variable they were loaded from (no aliasing between map variables)"] = true
	case *ssa.Lookup:
		x := fc.valOf(fr, t.X)
		var m *Term
		if x.Origin != nil {
			m = v.load(st, x.Origin)
		} else {
			m = v.asTerm(st, x)
		}
		if m.Sort.Kind != KData || !strings.HasPrefix(m.Sort.Name, "Map_") {
			unsupported("lookup on %s", m.Sort.Name)
		}
		k := v.asTerm(st, fc.valOf(fr, t.Index))
		in := c.Select(c.FieldOf(m, 0), k)
		zero := v.tm.ZeroOf(m.Sort.Fields[1].Sort.Elem)
		val := c.Ite(in, c.Select(c.FieldOf(m, 1), k), zero)
		if t.CommaOk {
			fr.vals[t] = Val{Tuple: []Val{{T: val}, {T: in}}}
		} else {
			fr.vals[t] = Val{T: val, GoT: t.Type()}
		}
	default:
		unsupported("instruction %T (%s) at %s", ins, ins, v.fset.Position(ins.Pos()))
	}
}

func (fc *FuncCtx) noteParamMutation(loc *Loc) {
	if loc.Cell == nil {
		return
	}
	name := loc.Cell.Comment
	if _, isParam := fc.paramSV[name]; !isParam || loc.Cell.Parent() != fc.fn {
		return
	}
	for _, pe := range loc.Path {
		if pe.Slice {
			fc.mutatedParam[name] = true
		}
	}
}

// asLoc interprets a pointer-typed SSA value as a location.
func (fc *FuncCtx) asLoc(fr *Frame, st *State, x ssa.Value, pos token.Pos) *Loc {
	v := fc.v
	val := fc.valOf(fr, x)
	if val.Loc != nil {
		return val.Loc
	}
	if val.T == nil {
		unsupported("cannot use %s as an address", x.Name())
	}
	el := pointee(x.Type())
	if el == nil {
		unsupported("address value of non-pointer type %s", x.Type())
	}
	fc.nilCheck(st, val.T, x, pos)
	so := v.tm.SortOf(el)
	return &Loc{Ref: val.T, HeapKey: v.heapKeyFor(el), Sort: so, GoT: el, RSort: so}
}

func (fc *FuncCtx) nilCheck(st *State, ref *Term, x ssa.Value, pos token.Pos) {
	c := fc.v.c
	// receivers and fresh allocations are known non-nil
	if p, ok := x.(*ssa.Parameter); ok && fc.fn.Signature.Recv() != nil && len(fc.fn.Params) > 0 && p == fc.fn.Params[0] {
		st.assume(c, c.Not(c.Eq(ref, c.Int(0))))
		return
	}
	fc.safety(st, "nil", c.Not(c.Eq(ref, c.Int(0))), pos, "nil dereference of "+x.Name())
}

func (fc *FuncCtx) execUnOp(fr *Frame, st *State, t *ssa.UnOp) {
	v := fc.v
	c := v.c
	switch t.Op {
	case token.MUL:
		if g, ok := t.X.(*ssa.Global); ok {
			// function variables / package-level values
			fr.vals[t] = Val{T: v.globalValue(g), GoT: t.Type()}
			v.assumeTyped(st, v.globalValue(g), t.Type(), nil)
			if _, isSig := t.Type().Underlying().(*types.Signature); isSig {
				fr.vals[t] = Val{T: v.globalValue(g), GoT: t.Type(), Origin: &Loc{Root: c.Const("globalfunc:"+g.Pkg.Pkg.Path()+"."+g.Name(), SInt)}}
			}
			return
		}
		loc := fc.asLoc(fr, st, t.X, t.Pos())
		if loc.Cell != nil && len(loc.Path) == 0 {
			if cl, ok := st.clos[loc.Cell]; ok {
				fr.vals[t] = Val{Clo: cl, GoT: t.Type()}
				return
			}
		}
		val := v.load(st, loc)
		fr.vals[t] = Val{T: val, GoT: t.Type(), Origin: loc}
		if isSliceSort(val.Sort) {
			st.assume(c, c.Cmp("<=", c.Int(0), c.FieldOf(val, 1)))
		}
		if loc.Cell == nil {
			v.assumeTyped(st, val, t.Type(), nil)
		}
	case token.NOT:
		fr.vals[t] = Val{T: c.Not(v.asTerm(st, fc.valOf(fr, t.X))), GoT: t.Type()}
	case token.SUB:
		fr.vals[t] = Val{T: c.Neg(v.asTerm(st, fc.valOf(fr, t.X))), GoT: t.Type()}
	default:
		unsupported("unary operator %s", t.Op)
	}
}

func (fc *FuncCtx) binop(fr *Frame, st *State, t *ssa.BinOp) *Term {
	v := fc.v
	c := v.c
	x := v.asTerm(st, fc.valOf(fr, t.X))
	y := v.asTerm(st, fc.valOf(fr, t.Y))
	xt := t.X.Type()
	switch t.Op {
	case token.EQL:
		return fc.eqTerms(x, y)
	case token.NEQ:
		return c.Not(fc.eqTerms(x, y))
	}
	if x.Sort == v.tm.SStr && t.Op == token.ADD {
		return c.UF("str_concat", v.tm.SStr, x, y)
	}
	if x.Sort != SInt || y.Sort != SInt {
		unsupported("binary operator %s on sorts %s,%s", t.Op, x.Sort.Name, y.Sort.Name)
	}
	switch t.Op {
	case token.ADD:
		return c.Arith("+", x, y)
	case token.SUB:
		if isUnsigned(xt) {
			fc.safety(st, "usub", c.Cmp(">=", x, y), t.Pos(), "unsigned subtraction does not wrap")
		}
		return c.Arith("-", x, y)
	case token.MUL:
		return c.Arith("*", x, y)
	case token.QUO:
		fc.safety(st, "div", c.Not(c.Eq(y, c.Int(0))), t.Pos(), "integer division by zero")
		if isUnsigned(xt) {
			return c.App("div", SInt, x, y)
		}
		return c.App("go_quo", SInt, x, y)
	case token.REM:
		fc.safety(st, "div", c.Not(c.Eq(y, c.Int(0))), t.Pos(), "integer remainder by zero")
		if isUnsigned(xt) {
			return c.App("mod", SInt, x, y)
		}
		return c.App("go_rem", SInt, x, y)
	case token.LSS:
		return c.Cmp("<", x, y)
	case token.LEQ:
		return c.Cmp("<=", x, y)
	case token.GTR:
		return c.Cmp(">", x, y)
	case token.GEQ:
		return c.Cmp(">=", x, y)
	}
	unsupported("binary operator %s", t.Op)
	return nil
}

func (fc *FuncCtx) eqTerms(x, y *Term) *Term {
	if x.Sort != y.Sort {
		unsupported("comparison between sorts %s and %s", x.Sort.Name, y.Sort.Name)
	}
	return fc.v.c.Eq(x, y)
}

func (fc *FuncCtx) convert(fr *Frame, st *State, t *ssa.Convert) *Term {
	v := fc.v
	c := v.c
	x := v.asTerm(st, fc.valOf(fr, t.X))
	from, to := t.X.Type(), t.Type()
	if isIntType(from) && isIntType(to) {
		flo, fhi, _ := intRange(from)
		tlo, thi, _ := intRange(to)
		if tlo.Cmp(flo) <= 0 && thi.Cmp(fhi) >= 0 {
			return x
		}
		if x.Op == "int" && x.IntVal.Cmp(tlo) >= 0 && x.IntVal.Cmp(thi) <= 0 {
			return x
		}
		inr := c.And(c.Cmp("<=", c.BigInt(tlo), x), c.Cmp("<=", x, c.BigInt(thi)))
		if !fc.spec.Allow["conv"] {
			fc.safety(st, "conv", inr, t.Pos(), fmt.Sprintf("conversion %s -> %s keeps the value", from, to))
			return x
		}
		m := new(big.Int).Add(new(big.Int).Sub(thi, tlo), big.NewInt(1))
		return c.Ite(inr, x, c.App("wrap", SInt, x, c.BigInt(tlo), c.BigInt(m)))
	}
	fs, ts := v.tm.SortOf(from), v.tm.SortOf(to)
	if fs == ts {
		return x
	}
	// string <-> []byte and similar: uninterpreted
	return c.UF("conv_"+sanitize(fs.Name)+"_to_"+sanitize(ts.Name), ts, x)
}

func (fc *FuncCtx) execIndexAddr(fr *Frame, st *State, t *ssa.IndexAddr) {
	v := fc.v
	c := v.c
	idx := v.asTerm(st, fc.valOf(fr, t.Index))
	switch xt := t.X.Type().Underlying().(type) {
	case *types.Pointer: // pointer to array
		at := xt.Elem().Underlying().(*types.Array)
		base := fc.asLoc(fr, st, t.X, t.Pos())
		fc.safety(st, "index", c.And(c.Cmp("<=", c.Int(0), idx), c.Cmp("<", idx, c.Int(at.Len()))), t.Pos(), "array index in range")
		fr.vals[t] = Val{Loc: base.extend(PathElem{Field: -1, Idx: idx}, v.tm.SortOf(at.Elem()), at.Elem()), GoT: t.Type()}
	case *types.Slice:
		sv := fc.valOf(fr, t.X)
		s := v.asTerm(st, sv)
		if !isSliceSort(s.Sort) {
			if at, ok := v.tm.abstract[typeKey(t.X.Type())]; ok && at.SeqAt != "" {
				ln := c.App(at.SeqLen, SInt, s)
				fc.safety(st, "index", c.And(c.Cmp("<=", c.Int(0), idx), c.Cmp("<", idx, ln)), t.Pos(), "list index in range")
				es := v.tm.SortOf(xt.Elem())
				loc := &Loc{Root: c.App(at.SeqAt, es, s, idx), Sort: es, GoT: xt.Elem(), RSort: es}
				if sf, ok := v.specFuncs["setelem_"+sanitize(s.Sort.Name)]; ok && sv.Origin != nil && sv.Origin.Root == nil {
					loc.AbsBase, loc.AbsIdx, loc.AbsSet, loc.AbsAt = sv.Origin, idx, sf, at.SeqAt
				}
				fr.vals[t] = Val{Loc: loc, GoT: t.Type()}
				return
			}
			unsupported("indexing an abstract list value of type %s (sort %s) at %s", t.X.Type(), s.Sort.Name, v.fset.Position(t.Pos()))
		}
		fc.safety(st, "index", c.And(c.Cmp("<=", c.Int(0), idx), c.Cmp("<", idx, c.FieldOf(s, 1))), t.Pos(), "slice index in range")
		es := s.Sort.Fields[0].Sort.Elem
		var base *Loc
		if sv.Origin != nil && sv.Origin.Root == nil {
			base = sv.Origin // live view of the variable the slice was loaded from
		} else {
			base = &Loc{Root: s, Sort: s.Sort, RSort: s.Sort}
		}
		fr.vals[t] = Val{Loc: base.extend(PathElem{Field: -1, Idx: idx, Slice: true}, es, xt.Elem()), GoT: t.Type()}
	default:
		unsupported("IndexAddr on %s", t.X.Type())
	}
}

func (v *Verifier) listNil(at *AbstractType) *Term {
	env := &Env{v: v, vars: map[string]SV{}, st: newState()}
	sv, err := env.evalIdent(at.ListNil)
	if err != nil {
		panic(specError{fmt.Sprintf("list nil %s: %v", at.ListNil, err)})
	}
	return sv.T
}

func (v *Verifier) listCons(at *AbstractType, l, e *Term) *Term {
	sf, ok := v.specFuncs[at.ListCons]
	if !ok {
		panic(specError{"list cons specfunc " + at.ListCons + " not declared"})
	}
	env := &Env{v: v, vars: map[string]SV{}, st: newState()}
	sv, err := env.applySpecFunc(sf, []SV{{T: l}, {T: e}})
	if err != nil {
		panic(specError{err.Error()})
	}
	return sv.T
}

func (fc *FuncCtx) execSlice(fr *Frame, st *State, t *ssa.Slice) {
	v := fc.v
	c := v.c
	so := v.tm.SortOf(t.Type())
	var lo, hi *Term
	if t.Low != nil {
		lo = v.asTerm(st, fc.valOf(fr, t.Low))
	} else {
		lo = c.Int(0)
	}
	if t.High != nil {
		hi = v.asTerm(st, fc.valOf(fr, t.High))
	}
	if t.Max != nil {
		unsupported("3-index slice")
	}
	switch xt := t.X.Type().Underlying().(type) {
	case *types.Pointer: // *[n]T
		at := xt.Elem().Underlying().(*types.Array)
		loc := fc.asLoc(fr, st, t.X, t.Pos())
		arr := v.load(st, loc)
		n := at.Len()
		if hi == nil {
			hi = c.Int(n)
		}
		if abs, ok := v.tm.abstract[typeKey(t.Type())]; ok && abs.ListNil != "" {
			if !(lo.Op == "int" && lo.IntVal.Sign() == 0 && hi.Op == "int" && hi.IntVal.Int64() == n) {
				unsupported("partial slice of array into abstract list type")
			}
			l := v.listNil(abs)
			for i := int64(0); i < n; i++ {
				l = v.listCons(abs, l, c.Select(arr, c.Int(i)))
			}
			if _, named := t.Type().(*types.Named); named && (abs.Sort.Name == "Coins" || abs.ListCons == "coins_cons") {
				// a composite literal sdk.Coins{...} builds the LIST directly, without the sanitising of sdk.NewCoins: the map model
				// of Coins assumes valid lists (positive amounts, distinct denominations), so validity is an obligation here - a
				// zero-amount entry makes Empty() / Len() / IsValid() of the real list differ from the model's
				for i := int64(0); i < n; i++ {
					e := c.Select(arr, c.Int(i))
					amt, ok1 := c.FieldByName(e, "Amount")
					den, ok2 := c.FieldByName(e, "Denom")
					if !ok1 || !ok2 || amt.Sort.Kind != KInt {
						continue
					}
					fc.safety(st, "coinslit", c.Cmp(">", amt, c.Int(0)), t.Pos(), "sdk.Coins literal: every amount is positive (the list is not sanitised)")
					for j := int64(0); j < i; j++ {
						if dj, ok := c.FieldByName(c.Select(arr, c.Int(j)), "Denom"); ok {
							fc.safety(st, "coinslit", c.Not(c.Eq(den, dj)), t.Pos(), "sdk.Coins literal: denominations are distinct")
						}
					}
				}
			}
			fr.vals[t] = Val{T: l, GoT: t.Type()}
			return
		}
		if !isSliceSort(so) {
			unsupported("slice of array into sort %s", so.Name)
		}
		fc.safety(st, "slice", c.And(c.Cmp("<=", c.Int(0), lo), c.Cmp("<=", lo, hi), c.Cmp("<=", hi, c.Int(n))), t.Pos(), "slice bounds in range")
		fr.vals[t] = Val{T: v.subslice(c.Ctor(so, arr, c.Int(n)), lo, hi), GoT: t.Type()}
	case *types.Slice:
		sv := fc.valOf(fr, t.X)
		s := v.asTerm(st, sv)
		if !isSliceSort(s.Sort) {
			if t.Low == nil && t.High == nil {
				fr.vals[t] = Val{T: s, GoT: t.Type()}
				return
			}
			// abstract list with a sequence view: s[lo:hi] through the spec function slice_<sort>(s, lo, hi), if declared
			if at, ok := v.tm.abstract[typeKey(t.X.Type())]; ok && at.SeqLen != "" && t.Max == nil {
				if sf, ok := v.specFuncs["slice_"+sanitize(s.Sort.Name)]; ok {
					n := c.App(at.SeqLen, SInt, s)
					st.assume(c, c.Cmp(">=", n, c.Int(0)))
					if hi == nil {
						hi = n
					}
					fc.safety(st, "slice", c.And(c.Cmp("<=", c.Int(0), lo), c.Cmp("<=", lo, hi), c.Cmp("<=", hi, n)), t.Pos(), "slice bounds within length")
					env := &Env{v: v, vars: map[string]SV{}, st: st}
					sv, err := env.applySpecFunc(sf, []SV{{T: s}, {T: lo}, {T: hi}})
					if err != nil {
						panic(specError{err.Error()})
					}
					fr.vals[t] = Val{T: sv.T, GoT: t.Type()}
					return
				}
			}
			unsupported("slicing an abstract list value")
		}
		if hi == nil {
			hi = c.FieldOf(s, 1)
		}
		// stricter than Go (hi <= len rather than cap): re-slicing beyond len is outside the value model
		fc.safety(st, "slice", c.And(c.Cmp("<=", c.Int(0), lo), c.Cmp("<=", lo, hi), c.Cmp("<=", hi, c.FieldOf(s, 1))), t.Pos(), "slice bounds within length")
		r := v.subslice(s, lo, hi)
		if r.Sort != so {
			unsupported("slice result sort mismatch")
		}
		fr.vals[t] = Val{T: r, GoT: t.Type()}
	case *types.Basic:
		// s[lo:hi] of a string: an uninterpreted function of (s, lo, hi) with the bounds checked; nothing else is known of the
		// result except its length (sound: whatever a contract needs beyond that cannot be proved)
		sv := v.asTerm(st, fc.valOf(fr, t.X))
		if sv.Sort != v.tm.SStr {
			unsupported("string slicing of sort %s", sv.Sort.Name)
		}
		n := c.UF("str_len", SInt, sv)
		st.assume(c, c.Cmp(">=", n, c.Int(0)))
		if hi == nil {
			hi = n
		}
		fc.safety(st, "slice", c.And(c.Cmp("<=", c.Int(0), lo), c.Cmp("<=", lo, hi), c.Cmp("<=", hi, n)), t.Pos(), "string slice bounds within length")
		r := c.UF("str_slice", v.tm.SStr, sv, lo, hi)
		st.assume(c, c.Eq(c.UF("str_len", SInt, r), c.Arith("-", hi, lo)))
		fr.vals[t] = Val{T: r, GoT: t.Type()}
	default:
		unsupported("slice of %s", t.X.Type())
	}
}

// ---- interfaces

func (v *Verifier) typeTag(t types.Type) *Term {
	key := typeKey(t)
	n, ok := v.typeTags[key]
	if !ok {
		n = int64(len(v.typeTags) + 1)
		v.typeTags[key] = n
		if v.tagTypes == nil {
			v.tagTypes = map[int64]types.Type{}
		}
		v.tagTypes[n] = t
		for name, ifc := range v.implIfaces {
			v.implementsFact(name, ifc, n, t)
		}
	}
	return v.c.Int(n)
}

// implementsSym names the predicate "a value of dynamic type <tag> can be asserted to interface type it" (over type tags).
// Interface types of different packages that share package and type name (x/evm/types.TxData, core/types.TxData) get different
// predicates. Go's type checker decides the predicate for every concrete type that has a tag: the ground facts
// implements_I(tag(T)) / not implements_I(tag(T)) are attached to the symbol (method sets are static facts of the program).
func (v *Verifier) implementsSym(it types.Type) string {
	name := "implements_" + sanitize(shortTypeName(it))
	key := typeKey(it)
	if v.implNames == nil {
		v.implNames = map[string]string{}
		v.implIfaces = map[string]*types.Interface{}
	}
	if prev, ok := v.implNames[name]; ok && prev != key {
		name = fmt.Sprintf("%s_%x", name, hashStr(key))
	}
	if _, ok := v.implNames[name]; !ok {
		v.implNames[name] = key
		if ifc, isI := it.Underlying().(*types.Interface); isI {
			v.implIfaces[name] = ifc
			for n, t := range v.tagTypes {
				v.implementsFact(name, ifc, n, t)
			}
		}
	}
	return name
}

func (v *Verifier) implementsFact(name string, ifc *types.Interface, n int64, t types.Type) {
	if _, isI := t.Underlying().(*types.Interface); isI {
		return // a tag of an interface type is never the dynamic type of a value
	}
	v.c.DeclareFun(name, []*Sort{SInt}, SBool)
	if types.Implements(t, ifc) {
		v.c.AddAxiom(name, fmt.Sprintf("(assert (%s %d))", smtSym(name), n))
	} else {
		v.c.AddAxiom(name, fmt.Sprintf("(assert (not (%s %d)))", smtSym(name), n))
	}
}

// boxName gives the name of the boxing function of a concrete type; types of different packages that share package and
// type name (x/evm/types.LegacyTx, core/types.LegacyTx) get different functions.
var boxNames = map[string]string{}

func boxName(t types.Type) string {
	name := "box_" + sanitize(shortTypeName(t))
	key := typeKey(t)
	if prev, ok := boxNames[name]; ok && prev != key {
		name = fmt.Sprintf("%s_%x", name, hashStr(key))
	} else {
		boxNames[name] = key
	}
	return name
}

func (v *Verifier) box(st *State, x *Term, t types.Type) *Term {
	c := v.c
	if _, isIface := t.Underlying().(*types.Interface); isIface {
		return x
	}
	name := boxName(t)
	b := c.UF(name, SInt, x)
	st.assume(c, c.Not(c.Eq(b, c.Int(0))))
	st.assume(c, c.Eq(c.UF("typeof", SInt, b), v.typeTag(t)))
	st.assume(c, c.Eq(c.UF("un"+name, x.Sort, b), x))
	return b
}

func (fc *FuncCtx) execTypeAssert(fr *Frame, st *State, t *ssa.TypeAssert) {
	v := fc.v
	c := v.c
	x := v.asTerm(st, fc.valOf(fr, t.X))
	if _, toIface := t.AssertedType.Underlying().(*types.Interface); toIface {
		ok := c.And(c.Not(c.Eq(x, c.Int(0))), c.UF(v.implementsSym(t.AssertedType), SBool, c.UF("typeof", SInt, x)))
		if ifc, isI := t.AssertedType.Underlying().(*types.Interface); isI && types.Implements(t.X.Type(), ifc) {
			// the static type of the operand already guarantees the method set: only nil fails
			ok = c.Not(c.Eq(x, c.Int(0)))
		}
		if t.CommaOk {
			fr.vals[t] = Val{Tuple: []Val{{T: c.Ite(ok, x, c.Int(0)), GoT: t.AssertedType}, {T: ok}}}
		} else {
			fc.safety(st, "typeassert", ok, t.Pos(), "interface conversion succeeds")
			fr.vals[t] = Val{T: x, GoT: t.AssertedType}
		}
		return
	}
	so := v.tm.SortOf(t.AssertedType)
	name := boxName(t.AssertedType)
	ok := c.And(c.Not(c.Eq(x, c.Int(0))), c.Eq(c.UF("typeof", SInt, x), v.typeTag(t.AssertedType)))
	c.DeclareFun("un"+name, []*Sort{SInt}, so)
	val := c.App("un"+name, so, x)
	if t.CommaOk {
		fr.vals[t] = Val{Tuple: []Val{{T: c.Ite(ok, val, v.tm.ZeroOf(so)), GoT: t.AssertedType}, {T: ok}}}
	} else {
		fc.safety(st, "typeassert", ok, t.Pos(), "type assertion succeeds")
		fr.vals[t] = Val{T: val, GoT: t.AssertedType}
	}
}

// freshMapLiteral reports whether the MapUpdate `upd` on the MakeMap register `mk` belongs to the initialisation of a map
// composite literal: same block, and between the MakeMap and the update the register is used by nothing but other MapUpdates
// (so the map cannot have been stored or passed on, i.e. it has no alias yet).
func freshMapLiteral(mk *ssa.MakeMap, upd *ssa.MapUpdate) bool {
	b := mk.Block()
	if b == nil || upd.Block() != b {
		return false
	}
	seen := false
	for _, ins := range b.Instrs {
		if ins == ssa.Instruction(mk) {
			seen = true
			continue
		}
		if !seen {
			continue
		}
		if ins == ssa.Instruction(upd) {
			return true
		}
		if _, isUpd := ins.(*ssa.MapUpdate); isUpd {
			continue
		}
		for _, op := range ins.Operands(nil) {
			if op != nil && *op == ssa.Value(mk) {
				return false
			}
		}
	}
	return false
}
