package main

// Lemma obligations, ghost unfolding, solver racing.

import (
	"bytes"
	"context"
	"fmt"
	"os"
	"os/exec"
	"path/filepath"
	"sort"
	"strings"
	"sync"
	"time"
)

func (v *Verifier) VerifyLemma(l *Lemma, earlier map[string]bool) {
	defer func() {
		if r := recover(); r != nil {
			if ee, ok := r.(engineError); ok {
				v.engineErrors = append(v.engineErrors, fmt.Sprintf("lemma %s: %s", l.Name, ee.msg))
				return
			}
			if se, ok := r.(specError); ok {
				v.engineErrors = append(v.engineErrors, fmt.Sprintf("lemma %s: contract error: %s", l.Name, se.msg))
				return
			}
			panic(r)
		}
	}()
	c := v.c
	if l.Trusted {
		v.notes["lemma "+l.Name+" is trusted (not proved)"] = true
		return
	}
	env := &Env{v: v, vars: map[string]SV{}, st: newState()}
	for _, p := range l.Params {
		so, gt, err := v.resolveTypeOrSort(p.Type)
		if err != nil {
			panic(specError{err.Error()})
		}
		env.vars[p.Name] = SV{T: c.Const("lemma."+l.Name+"."+p.Name, so), GoT: gt}
	}
	var assume []*Term
	evalAll := func(e *Env, cls []Clause) []*Term {
		var out []*Term
		for _, r := range cls {
			t, err := e.EvalBool(r.E)
			if err != nil {
				panic(specError{fmt.Sprintf("line %d: %v", r.Line, err)})
			}
			out = append(out, t)
		}
		return out
	}
	assume = append(assume, evalAll(env, l.Requires)...)
	if l.Induction != "" {
		iv, ok := env.vars[l.Induction]
		if !ok {
			panic(specError{"induction variable " + l.Induction + " is not a parameter"})
		}
		if l.Above == nil {
			panic(specError{"induction needs 'above EXPR' (the hypothesis is available only when var > EXPR)"})
		}
		if exprMentions(l.Above, l.Induction) {
			panic(specError{"the 'above' bound must not mention the induction variable"})
		}
		ab, err := env.Eval(l.Above)
		if err != nil {
			panic(specError{err.Error()})
		}
		ih := env.child()
		ih.vars[l.Induction] = SV{T: c.Arith("-", iv.T, c.Int(1)), GoT: iv.GoT}
		hyp := c.Implies(c.And(evalAll(ih, l.Requires)...), c.And(evalAll(ih, l.Ensures)...))
		assume = append(assume, c.Implies(c.Cmp(">", iv.T, ab.T), hyp))
	}
	for _, u := range l.Uses {
		if u.E.Kind == "call" && u.E.Name != "$unfold" && !earlier[u.E.Name] {
			panic(specError{fmt.Sprintf("lemma %s may only use lemmas declared before it (%s)", l.Name, u.E.Name)})
		}
		t, err := v.useTerm(env, u.E)
		if err != nil {
			panic(specError{fmt.Sprintf("use (line %d): %v", u.Line, err)})
		}
		assume = append(assume, t)
	}
	for _, uf := range l.Unfold {
		t, err := v.useTerm(env, &Expr{Kind: "call", Name: "$unfold", Args: []*Expr{uf}})
		if err != nil {
			panic(specError{err.Error()})
		}
		assume = append(assume, t)
	}
	v.addObligation(&Obligation{Name: "lemma." + l.Name + "#cover", Kind: "cover", Func: "lemma " + l.Name, Assume: assume, Expect: "sat"})
	for i, e := range l.Ensures {
		t, err := env.EvalBool(e.E)
		if err != nil {
			panic(specError{fmt.Sprintf("line %d: %v", e.Line, err)})
		}
		label := e.Label
		if label == "" {
			label = fmt.Sprint(i + 1)
		}
		v.addObligation(&Obligation{Name: "lemma." + l.Name + "#ensures." + label, Kind: "lemma", Func: "lemma " + l.Name, Assume: assume, Goal: t, Expect: "unsat", Src: e.Src})
	}
}

func exprMentions(e *Expr, name string) bool {
	if e == nil {
		return false
	}
	if e.Kind == "id" && e.Name == name {
		return true
	}
	for _, a := range e.Args {
		if exprMentions(a, name) {
			return true
		}
	}
	return false
}

// unfoldInstances returns defining equations for ghost applications occurring in roots (depth levels).
func (v *Verifier) unfoldInstances(roots []*Term, depth int) []*Term {
	bySym := map[string]*ghostDef{}
	for _, g := range v.ghosts {
		bySym[g.Sym] = g
	}
	done := map[int]bool{}
	var out []*Term
	cur := roots
	for d := 0; d < depth; d++ {
		apps := collectApps(cur, func(t *Term) bool { _, ok := bySym[t.Name]; return ok && !t.hasBound })
		var next []*Term
		for _, a := range apps {
			if done[a.id] {
				continue
			}
			done[a.id] = true
			eq, err := v.ghostUnfold(bySym[a.Name], a)
			if err != nil {
				panic(specError{err.Error()})
			}
			out = append(out, eq)
			next = append(next, eq)
		}
		if len(next) == 0 {
			break
		}
		cur = next
	}
	return out
}

// ------------------------------------------------------------ solving

type Result struct {
	Name     string  `json:"name"`
	Kind     string  `json:"kind"`
	Func     string  `json:"func"`
	Pos      string  `json:"pos,omitempty"`
	Src      string  `json:"src,omitempty"`
	Note     string  `json:"note,omitempty"`
	Expect   string  `json:"expect"`
	Status   string  `json:"status"` // proved | failed | ok | vacuous | error
	Answer   string  `json:"answer"` // unsat | sat | unknown | timeout
	Solver   string  `json:"solver"`
	Seconds  float64 `json:"seconds"`
	SMTBytes int     `json:"smt_bytes"`
	File     string  `json:"file"`
	Model    string  `json:"model,omitempty"`
	Output   string  `json:"output,omitempty"`
	Known    string  `json:"known,omitempty"`
	// -agree (thorough tier): answers of every solver on the plain encoding of a proved obligation
	Agree []string `json:"agree,omitempty"`
}

type solverSpec struct {
	name string
	args func(file string, tmo int) []string
	skip func(text string) bool
}

var solvers = []solverSpec{
	{"z3-4.8.12", func(f string, t int) []string { return []string{"z3", fmt.Sprintf("-T:%d", t), f} }, func(string) bool { return false }},
	{"z3-5.1.0", func(f string, t int) []string { return []string{"z3-new", fmt.Sprintf("-T:%d", t), f} }, func(string) bool { return false }},
	{"cvc5-1.0", func(f string, t int) []string {
		return []string{"cvc5", fmt.Sprintf("--tlimit=%d", t*1000), f}
	}, func(text string) bool { return strings.Contains(text, "(_ map") || strings.Contains(text, "(lambda") }},
}

func (v *Verifier) buildQuery(o *Obligation, depth int) *Query {
	roots := append([]*Term{}, o.Assume...)
	if o.Goal != nil {
		roots = append(roots, o.Goal)
	}
	unf := v.unfoldInstances(roots, depth)
	q := &Query{Name: o.Name, Assume: append(append([]*Term{}, o.Assume...), unf...), Goal: o.Goal}
	// tagged axioms: added when their trigger symbol occurs in the query
	used := map[string]bool{}
	for _, a := range collectApps(append(append([]*Term{}, q.Assume...), nonNil(o.Goal)...), func(t *Term) bool { return true }) {
		used[a.Name] = true
	}
	for i, ax := range v.taggedAxioms {
		if !used[ax.Label] {
			continue
		}
		t, ok := v.taggedTerms[i]
		if !ok {
			env := &Env{v: v, vars: map[string]SV{}, st: newState()}
			tt, err := env.EvalBool(ax.E)
			if err != nil {
				panic(specError{fmt.Sprintf("axiom %s: %v", ax.Label, err)})
			}
			t = tt
			v.taggedTerms[i] = t
		}
		q.Assume = append(q.Assume, t)
	}
	if o.Src != "" {
		q.Comment = "goal: " + o.Src
	}
	// distinct string literals
	var lits []string
	seen := map[string]bool{}
	for _, t := range collectVars(append(q.Assume, nonNil(o.Goal)...)) {
		if _, ok := v.strLits[t.Name]; ok && !seen[t.Name] {
			seen[t.Name] = true
			lits = append(lits, smtSym(t.Name))
		}
	}
	sort.Strings(lits)
	if len(lits) >= 1 {
		all := append([]string{"zero_Str"}, lits...)
		v.c.Const("zero_Str", v.tm.SStr)
		q.Extra = append(q.Extra, "(assert (distinct "+strings.Join(all, " ")+"))")
		// make sure zero_Str is declared: reference it through a trivial (non-simplified) assumption
		q.Assume = append(q.Assume, v.c.App("=", SBool, v.tm.ZeroOf(v.tm.SStr), v.tm.ZeroOf(v.tm.SStr)))
	}
	return q
}

func nonNil(t *Term) []*Term {
	if t == nil {
		return nil
	}
	return []*Term{t}
}

func collectVars(roots []*Term) []*Term {
	seen := map[int]bool{}
	var out []*Term
	var walk func(t *Term)
	walk = func(t *Term) {
		if seen[t.id] {
			return
		}
		seen[t.id] = true
		if t.Op == "var" {
			out = append(out, t)
		}
		for _, a := range t.Args {
			walk(a)
		}
	}
	for _, r := range roots {
		walk(r)
	}
	return out
}

func runSolver(ctx context.Context, sp solverSpec, file string, tmo int) (string, string, float64) {
	start := time.Now()
	args := sp.args(file, tmo)
	cctx, cancel := context.WithTimeout(ctx, time.Duration(tmo+2)*time.Second)
	defer cancel()
	cmd := exec.CommandContext(cctx, args[0], args[1:]...)
	var out bytes.Buffer
	cmd.Stdout = &out
	cmd.Stderr = &out
	cmd.Run()
	el := time.Since(start).Seconds()
	text := out.String()
	first := strings.TrimSpace(strings.SplitN(text, "\n", 2)[0])
	switch first {
	case "unsat", "sat", "unknown":
		return first, text, el
	}
	if strings.Contains(text, "timeout") || cctx.Err() != nil {
		return "timeout", text, el
	}
	return "error", text, el
}

func (v *Verifier) Discharge(work string, tmo int, par int, depth int) []*Result {
	os.MkdirAll(work, 0o755)
	results := make([]*Result, len(v.obligations))
	// rendering is sequential (TermCtx is not thread-safe)
	files := make([]string, len(v.obligations))
	texts := make([]string, len(v.obligations))
	type variant struct {
		file, label string
		cvc5ok      bool
	}
	variants := make([][]variant, len(v.obligations))
	abstractable := map[string]bool{}
	for n := range v.c.defSigs {
		abstractable[n] = true
	}
	for i, o := range v.obligations {
		q := v.buildQuery(o, depth)
		text := v.c.Render(q, true)
		fn := filepath.Join(work, sanitizeFile(o.Name)+".smt2")
		os.WriteFile(fn, []byte(text), 0o644)
		files[i], texts[i] = fn, text
		if o.Goal == nil {
			continue
		}
		hasNL := strings.Contains(text, "(* ") || strings.Contains(text, "(div ") || strings.Contains(text, "(mod ") || strings.Contains(text, "quo ")
		usesMap := false
		for n := range abstractable {
			if strings.Contains(text, "("+n+" ") {
				usesMap = true
			}
		}
		mk := func(nl, cabs bool, suffix, label string) {
			q2 := &Query{Name: o.Name + " [" + label + "]", Extra: q.Extra, Comment: q.Comment}
			if cabs {
				q2.Abstract = abstractable
			}
			for _, a := range q.Assume {
				if nl {
					a = v.c.AbstractNL(a)
				}
				q2.Assume = append(q2.Assume, a)
			}
			q2.Goal = q.Goal
			if nl {
				q2.Goal = v.c.AbstractNL(q.Goal)
			}
			t2 := v.c.Render(q2, false)
			if nl && !strings.Contains(t2, "nl_") {
				return
			}
			fn2 := filepath.Join(work, sanitizeFile(o.Name)+suffix)
			os.WriteFile(fn2, []byte(t2), 0o644)
			variants[i] = append(variants[i], variant{fn2, label, !strings.Contains(t2, "(_ map") && !strings.Contains(t2, "(lambda")})
		}
		if hasNL {
			mk(true, false, ".nl.smt2", "nl-abstraction")
		}
		if usesMap {
			mk(false, true, ".ca.smt2", "coins-abstraction")
			if hasNL {
				mk(true, true, ".nlca.smt2", "nl+coins-abstraction")
			}
		}
	}
	var wg sync.WaitGroup
	sem := make(chan struct{}, par)
	var solveOne func(i int, o *Obligation, tmo int)
	solveOne = func(i int, o *Obligation, tmo int) {
		func(i int, o *Obligation) {
			r := &Result{Name: o.Name, Kind: o.Kind, Func: o.Func, Pos: o.Pos, Src: o.Src, Note: o.Note, Expect: o.Expect, File: files[i], SMTBytes: len(texts[i])}
			type ans struct {
				a, out, solver string
				sec            float64
			}
			ctx, cancel := context.WithCancel(context.Background())
			ch := make(chan ans, 4*len(solvers)+4)
			n := 0
			for _, sp := range solvers {
				if sp.skip(texts[i]) {
					continue
				}
				n++
				go func(sp solverSpec) {
					tm := tmo
					if o.Goal == nil && tm > 4 {
						tm = 4
					}
					a, out, sec := runSolver(ctx, sp, files[i], tm)
					ch <- ans{a, out, sp.name, sec}
				}(sp)
			}
			for _, vr := range variants[i] {
				for _, sp := range solvers {
					if sp.name == "z3-4.8.12" || (sp.name == "cvc5-1.0" && !vr.cvc5ok) {
						continue
					}
					n++
					go func(sp solverSpec, vr variant) {
						a, out, sec := runSolver(ctx, sp, vr.file, tmo)
						if a == "sat" {
							a = "unknown" // spurious under abstraction
						}
						ch <- ans{a, out, sp.name + "+" + vr.label, sec}
					}(sp, vr)
				}
			}
			var best *ans
			var all []string
			for k := 0; k < n; k++ {
				a := <-ch
				all = append(all, fmt.Sprintf("%s: %s (%.2fs)", a.solver, a.a, a.sec))
				if a.a == "unsat" || a.a == "sat" {
					aa := a
					best = &aa
					break
				}
				if best == nil || (best.a == "error" && a.a != "error") {
					aa := a
					best = &aa
				}
			}
			cancel()
			r.Answer, r.Solver, r.Seconds = best.a, best.solver, best.sec
			switch o.Expect {
			case "unsat":
				switch best.a {
				case "unsat":
					r.Status = "proved"
				case "sat":
					r.Status = "failed"
					r.Model = extractModel(best.out)
					// prefer a small counterexample (short slices, small integers) when one exists: easier to replay
					if sm := v.smallModel(files[i], texts[i]); sm != "" {
						r.Model = sm
						r.Note = strings.TrimSpace(r.Note + " (small-value counterexample)")
					}
				case "error":
					r.Status = "error"
					r.Output = strings.Join(all, "; ") + "\n" + truncate(best.out, 2000)
				default:
					r.Status = "failed"
					r.Output = strings.Join(all, "; ")
				}
			case "sat":
				switch best.a {
				case "sat":
					r.Status = "ok"
				case "unsat":
					r.Status = "vacuous"
				case "error":
					r.Status = "error"
					r.Output = strings.Join(all, "; ") + "\n" + truncate(best.out, 2000)
				default:
					r.Status = "ok"
					r.Note = strings.TrimSpace(r.Note + " (solver answered " + best.a + ": not refuted)")
				}
			}
			results[i] = r
		}(i, o)
	}
	for i, o := range v.obligations {
		wg.Add(1)
		go func(i int, o *Obligation) {
			defer wg.Done()
			sem <- struct{}{}
			defer func() { <-sem }()
			solveOne(i, o, tmo)
		}(i, o)
	}
	wg.Wait()
	// second chance: obligations that failed without a counterexample (timeout / unknown) are retried two at a
	// time with three times the limit, so that machine load cannot turn a provable obligation into an alarm
	sem2 := make(chan struct{}, 2)
	for i, o := range v.obligations {
		r := results[i]
		if r.Status == "failed" && r.Answer != "sat" && !strings.HasSuffix(o.Name, "[known]") {
			wg.Add(1)
			go func(i int, o *Obligation) {
				defer wg.Done()
				sem2 <- struct{}{}
				defer func() { <-sem2 }()
				first := results[i].Seconds
				solveOne(i, o, 3*tmo)
				results[i].Note = strings.TrimSpace(results[i].Note + fmt.Sprintf(" (retried with %ds limit after %.1fs)", 3*tmo, first))
			}(i, o)
		}
	}
	wg.Wait()
	if v.agree {
		// cross-solver agreement: every proved obligation is put to all solvers on the plain encoding (the abstractions can
		// only lose facts, so they are not part of the comparison); a "sat" from any of them against the "unsat" that was
		// accepted is a disagreement: a solver defect or a query that means different things to different solvers
		sem3 := make(chan struct{}, par)
		for i, o := range v.obligations {
			r := results[i]
			if r.Status != "proved" || o.Expect != "unsat" {
				continue
			}
			wg.Add(1)
			go func(i int, r *Result) {
				defer wg.Done()
				sem3 <- struct{}{}
				defer func() { <-sem3 }()
				for _, sp := range solvers {
					if sp.skip(texts[i]) {
						r.Agree = append(r.Agree, sp.name+": skipped (unsupported syntax)")
						continue
					}
					a, _, sec := runSolver(context.Background(), sp, files[i], tmo)
					r.Agree = append(r.Agree, fmt.Sprintf("%s: %s (%.2fs)", sp.name, a, sec))
					if a == "sat" {
						r.Status = "error"
						r.Output = "solver disagreement: accepted unsat from " + r.Solver + ", but " + strings.Join(r.Agree, "; ")
					}
				}
			}(i, r)
		}
		wg.Wait()
	}
	return results
}

func truncate(s string, n int) string {
	if len(s) > n {
		return s[:n] + "..."
	}
	return s
}

func sanitizeFile(s string) string {
	var sb strings.Builder
	for _, r := range s {
		if r >= 'a' && r <= 'z' || r >= 'A' && r <= 'Z' || r >= '0' && r <= '9' || r == '.' || r == '_' || r == '-' || r == '#' {
			sb.WriteRune(r)
		} else {
			sb.WriteRune('_')
		}
	}
	return sb.String()
}

// extractModel keeps the model text after the first line, dropping helper definitions.
func extractModel(out string) string {
	k := strings.Index(out, "\n")
	if k < 0 {
		return ""
	}
	m := out[k+1:]
	return truncate(m, 400000)
}

// smallModel re-runs a satisfiable query with side constraints bounding slice lengths and integer constants.
func (v *Verifier) smallModel(file, text string) string {
	var cons []string
	for _, line := range strings.Split(text, "\n") {
		if !strings.HasPrefix(line, "(declare-const ") {
			continue
		}
		rest := strings.TrimSuffix(strings.TrimPrefix(line, "(declare-const "), ")")
		sp := strings.Index(rest, " ")
		if sp < 0 {
			continue
		}
		name, sort := rest[:sp], strings.TrimSpace(rest[sp+1:])
		if strings.HasPrefix(name, "|") {
			end := strings.Index(rest[1:], "|")
			if end < 0 {
				continue
			}
			name, sort = rest[:end+2], strings.TrimSpace(rest[end+2:])
		}
		switch {
		case sort == "Int" && !strings.Contains(name, "alloc") && !strings.HasPrefix(name, "glob_"):
			cons = append(cons, fmt.Sprintf("(assert (and (<= (- 3) %s) (<= %s 30)))", name, name))
		case strings.HasPrefix(sort, "Slice_"):
			cons = append(cons, fmt.Sprintf("(assert (<= (%s_len %s) 3))", sort, name))
		}
	}
	if len(cons) == 0 {
		return ""
	}
	k := strings.Index(text, "(check-sat)")
	if k < 0 {
		return ""
	}
	t2 := text[:k] + strings.Join(cons, "\n") + "\n" + text[k:]
	f2 := strings.TrimSuffix(file, ".smt2") + ".small.smt2"
	os.WriteFile(f2, []byte(t2), 0o644)
	for _, sp := range solvers[:2] {
		a, out, _ := runSolver(context.Background(), sp, f2, 8)
		if a == "sat" {
			return extractModel(out)
		}
	}
	return ""
}
