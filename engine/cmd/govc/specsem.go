package main

// Evaluation of contract expressions to SMT terms.

import (
	"fmt"
	"go/types"
	"strings"
)

type SV struct {
	T   *Term
	GoT types.Type
}

type Env struct {
	v        *Verifier
	vars     map[string]SV
	lets     map[string]string
	st       *State
	old      *State
	results  []SV
	resNames []string
	progVar  func(name string, st *State) (SV, bool, error)
	rangeIdx func(st *State) (*Term, bool)
	idxAdj   int64 // #i = rangeindex + idxAdj
	// #iK: the number of elements the ENCLOSING range loop K has completely processed (= the index of its current element),
	// readable in the clauses of a loop nested in the body of loop K
	outerIdx func(k int, st *State) (*Term, error)
	letDepth int
	headSt   *State // state at the head of the enclosing loop (for head(e))
	heapSt   *State // when set, heap and world reads use this state (oldheap(e)) while variables use st
	callRet  func(name string, ord, idx int) (SV, bool)
	// call-site clauses (`call X requires`): names bound to the ARGUMENTS of the call (callee parameter names). Inside old(..)
	// they do not shadow the caller's own variables: old(x) is the caller's x at function entry
	calleeVars map[string]bool
}

func (e *Env) hst() *State {
	if e.heapSt != nil {
		return e.heapSt
	}
	return e.st
}

func (e *Env) child() *Env {
	n := *e
	n.vars = map[string]SV{}
	for k, v := range e.vars {
		n.vars[k] = v
	}
	return &n
}

func (e *Env) withState(st *State) *Env {
	n := *e
	n.st = st
	return &n
}

type specError struct{ msg string }

func (s specError) Error() string { return s.msg }

func serr(format string, a ...interface{}) error { return specError{fmt.Sprintf(format, a...)} }

func (v *Verifier) strLit(s string) *Term {
	if s == "" {
		return v.tm.ZeroOf(v.tm.SStr)
	}
	name := "str_" + sanitize(s)
	if prev, ok := v.strLits[name]; ok && prev != s {
		name = fmt.Sprintf("str_%s_%x", sanitize(s), hashStr(s))
	}
	v.strLits[name] = s
	return v.c.Const(name, v.tm.SStr)
}

func (e *Env) EvalBool(x *Expr) (*Term, error) {
	sv, err := e.Eval(x)
	if err != nil {
		return nil, err
	}
	if sv.T.Sort != SBool {
		return nil, serr("expected Bool, got %s in %s", sv.T.Sort.Name, x)
	}
	return sv.T, nil
}

func (e *Env) Eval(x *Expr) (SV, error) {
	v := e.v
	c := v.c
	switch x.Kind {
	case "int":
		return SV{T: c.BigInt(x.Int)}, nil
	case "bool":
		return SV{T: c.Bool(x.Name == "true")}, nil
	case "str":
		return SV{T: v.strLit(x.Name)}, nil
	case "id":
		return e.evalIdent(x.Name)
	case "un":
		a, err := e.Eval(x.Args[0])
		if err != nil {
			return SV{}, err
		}
		switch x.Name {
		case "!":
			if a.T.Sort != SBool {
				return SV{}, serr("! on non-bool in %s", x)
			}
			return SV{T: c.Not(a.T)}, nil
		case "-":
			if a.T.Sort != SInt {
				return SV{}, serr("- on non-int in %s", x)
			}
			return SV{T: c.Neg(a.T)}, nil
		case "*":
			return e.deref(a, x)
		}
	case "bin":
		return e.evalBin(x)
	case "call":
		return e.evalCall(x)
	case "index":
		a, err := e.Eval(x.Args[0])
		if err != nil {
			return SV{}, err
		}
		i, err := e.Eval(x.Args[1])
		if err != nil {
			return SV{}, err
		}
		return e.indexSV(a, i, x)
	case "slice":
		a, err := e.Eval(x.Args[0])
		if err != nil {
			return SV{}, err
		}
		if !isSliceSort(a.T.Sort) {
			return SV{}, serr("slice expression on non-slice %s in %s", a.T.Sort.Name, x)
		}
		lo := c.Int(0)
		hi := c.FieldOf(a.T, 1)
		if x.Args[1] != nil {
			l, err := e.Eval(x.Args[1])
			if err != nil {
				return SV{}, err
			}
			lo = l.T
		}
		if x.Args[2] != nil {
			h, err := e.Eval(x.Args[2])
			if err != nil {
				return SV{}, err
			}
			hi = h.T
		}
		return SV{T: v.subslice(a.T, lo, hi), GoT: a.GoT}, nil
	case "field":
		// result.N
		if x.Args[0].Kind == "id" && x.Args[0].Name == "result" {
			var n int
			if _, err := fmt.Sscanf(x.Name, "%d", &n); err == nil {
				if n >= len(e.results) {
					return SV{}, serr("result.%d out of range", n)
				}
				return e.results[n], nil
			}
		}
		a, err := e.Eval(x.Args[0])
		if err != nil {
			return SV{}, err
		}
		return e.fieldSV(a, x.Name, x)
	case "quant":
		ne := e.child()
		var bvs []*Term
		for _, p := range x.Vars {
			s, gt, err := v.resolveType(p.Type)
			if err != nil {
				return SV{}, err
			}
			b := c.BoundVar(p.Name, s)
			bvs = append(bvs, b)
			ne.vars[p.Name] = SV{T: b, GoT: gt}
		}
		body, err := ne.EvalBool(x.Args[0])
		if err != nil {
			return SV{}, err
		}
		return SV{T: c.Quant(x.Forall, bvs, body)}, nil
	}
	return SV{}, serr("cannot evaluate %s", x)
}

func isSliceSort(s *Sort) bool {
	return s.Kind == KData && strings.HasPrefix(s.Name, "Slice_")
}

func (e *Env) evalIdent(name string) (SV, error) {
	v := e.v
	if sv, ok := e.vars[name]; ok {
		return sv, nil
	}
	if src, ok := e.lets[name]; ok {
		if e.letDepth > 20 {
			return SV{}, serr("let recursion on %s", name)
		}
		ex, err := ParseExpr(src)
		if err != nil {
			return SV{}, err
		}
		ne := *e
		ne.letDepth++
		return ne.Eval(ex)
	}
	switch name {
	case "nil":
		return SV{T: v.c.Int(0)}, nil
	case "result":
		if len(e.results) == 0 {
			return SV{}, serr("result used where no result is available")
		}
		return e.results[0], nil
	case "#i":
		if e.rangeIdx == nil {
			return SV{}, serr("#i used outside a range loop clause")
		}
		t, ok := e.rangeIdx(e.st)
		if !ok {
			return SV{}, serr("#i: no range index in this loop")
		}
		return SV{T: v.c.Arith("+", t, v.c.Int(e.idxAdj))}, nil
	case "$alloc":
		return SV{T: v.getGlobal(e.st, "$alloc")}, nil
	}
	if strings.HasPrefix(name, "#i") && len(name) > 2 {
		var k int
		if _, err := fmt.Sscanf(name[2:], "%d", &k); err == nil && fmt.Sprint(k) == name[2:] {
			if e.outerIdx == nil {
				return SV{}, serr("%s used outside a loop clause", name)
			}
			t, err := e.outerIdx(k, e.st)
			if err != nil {
				return SV{}, err
			}
			return SV{T: t}, nil
		}
	}
	for i, rn := range e.resNames {
		if rn == name && i < len(e.results) {
			return e.results[i], nil
		}
	}
	if e.progVar != nil {
		sv, ok, err := e.progVar(name, e.st)
		if err != nil {
			return SV{}, err
		}
		if ok {
			return sv, nil
		}
	}
	if s, ok := v.worlds[name]; ok {
		_ = s
		return SV{T: v.getGlobal(e.hst(), name)}, nil
	}
	if s, ok := v.specConsts[name]; ok {
		return SV{T: v.c.Const(name, s)}, nil
	}
	if sf, ok := v.specFuncs[name]; ok && len(sf.Params) == 0 {
		return e.applySpecFunc(sf, nil)
	}
	return SV{}, serr("unknown identifier %q", name)
}

func (e *Env) deref(a SV, x *Expr) (SV, error) {
	v := e.v
	if a.GoT == nil {
		return SV{}, serr("cannot dereference untyped value in %s", x)
	}
	el := pointee(a.GoT)
	if el == nil {
		return SV{}, serr("dereference of non-pointer %s in %s", a.GoT, x)
	}
	key := v.heapKeyFor(el)
	return SV{T: v.c.Select(v.getGlobal(e.hst(), key), a.T), GoT: el}, nil
}

func (e *Env) fieldSV(a SV, name string, x *Expr) (SV, error) {
	v := e.v
	if a.GoT != nil {
		var pkg *types.Package
		t := a.GoT
		if p := pointee(t); p != nil {
			t = p
		}
		if n, ok := t.(*types.Named); ok {
			pkg = n.Obj().Pkg()
		}
		obj, index, _ := types.LookupFieldOrMethod(a.GoT, true, pkg, name)
		if fv, ok := obj.(*types.Var); ok && fv.IsField() {
			cur := a
			for _, idx := range index {
				if pointee(cur.GoT) != nil {
					d, err := e.deref(cur, x)
					if err != nil {
						return SV{}, err
					}
					cur = d
				}
				st, ok := cur.GoT.Underlying().(*types.Struct)
				if !ok || cur.T.Sort.Kind != KData {
					return SV{}, serr("field %s: %s is not a struct value (sort %s)", name, cur.GoT, cur.T.Sort.Name)
				}
				cur = SV{T: v.c.FieldOf(cur.T, idx), GoT: st.Field(idx).Type()}
			}
			return cur, nil
		}
	}
	if a.T.Sort.Kind == KData {
		if t, ok := v.c.FieldByName(a.T, name); ok {
			return SV{T: t}, nil
		}
	}
	return SV{}, serr("no field %s on %s (sort %s)", name, x.Args[0], a.T.Sort.Name)
}

func (e *Env) indexSV(a, i SV, x *Expr) (SV, error) {
	v := e.v
	switch {
	case isSliceSort(a.T.Sort):
		var et types.Type
		if a.GoT != nil {
			if sl, ok := a.GoT.Underlying().(*types.Slice); ok {
				et = sl.Elem()
			}
		}
		if i.T.Sort != SInt {
			return SV{}, serr("slice index must be Int in %s", x)
		}
		return SV{T: v.c.Select(v.c.FieldOf(a.T, 0), i.T), GoT: et}, nil
	case a.T.Sort.Kind == KArray:
		if i.T.Sort != a.T.Sort.Key {
			return SV{}, serr("index sort %s does not match key sort %s in %s", i.T.Sort.Name, a.T.Sort.Key.Name, x)
		}
		var et types.Type
		if a.GoT != nil {
			if ar, ok := a.GoT.Underlying().(*types.Array); ok {
				et = ar.Elem()
			}
		}
		return SV{T: v.c.Select(a.T, i.T), GoT: et}, nil
	case a.GoT != nil && a.T.Sort.Kind == KData && len(a.T.Sort.Fields) == 2 && a.T.Sort.Fields[0].Name == "dom" && a.T.Sort.Fields[1].Name == "val":
		// Go map value (dom, val): m[k] is the value the engine's map model yields for a lookup, i.e. ite(k in dom, val[k], zero)
		mt, ok := a.GoT.Underlying().(*types.Map)
		if !ok {
			break
		}
		if i.T.Sort != a.T.Sort.Fields[0].Sort.Key {
			return SV{}, serr("map key sort %s does not match %s in %s", i.T.Sort.Name, a.T.Sort.Fields[0].Sort.Key.Name, x)
		}
		es := a.T.Sort.Fields[1].Sort.Elem
		return SV{T: v.c.Ite(v.c.Select(v.c.FieldOf(a.T, 0), i.T), v.c.Select(v.c.FieldOf(a.T, 1), i.T), v.tm.ZeroOf(es)), GoT: mt.Elem()}, nil
	}
	if isMapSort(a.T.Sort) {
		// Go map lookup m[k]: the stored value, or the zero value of the element type when k is absent
		dom, val := v.c.FieldOf(a.T, 0), v.c.FieldOf(a.T, 1)
		if i.T.Sort != dom.Sort.Key {
			return SV{}, serr("map key sort %s does not match %s in %s", i.T.Sort.Name, dom.Sort.Key.Name, x)
		}
		var et types.Type
		if a.GoT != nil {
			if mt, ok := a.GoT.Underlying().(*types.Map); ok {
				et = mt.Elem()
			}
		}
		return SV{T: v.c.Ite(v.c.Select(dom, i.T), v.c.Select(val, i.T), v.tm.ZeroOf(val.Sort.Elem)), GoT: et}, nil
	}
	return SV{}, serr("cannot index %s (sort %s)", x.Args[0], a.T.Sort.Name)
}

func isNilLit(x *Expr) bool { return x != nil && x.Kind == "id" && x.Name == "nil" }

func isMapSort(s *Sort) bool {
	return s.Kind == KData && strings.HasPrefix(s.Name, "Map_") && len(s.Fields) == 2
}

func (e *Env) evalBin(x *Expr) (SV, error) {
	c := e.v.c
	a, err := e.Eval(x.Args[0])
	if err != nil {
		return SV{}, err
	}
	// short-circuit-ish typing for boolean ops
	b, err := e.Eval(x.Args[1])
	if err != nil {
		return SV{}, err
	}
	needBool := func() error {
		if a.T.Sort != SBool || b.T.Sort != SBool {
			return serr("operator %s needs Bool operands in %s (got %s, %s)", x.Name, x, a.T.Sort.Name, b.T.Sort.Name)
		}
		return nil
	}
	needInt := func() error {
		if a.T.Sort != SInt || b.T.Sort != SInt {
			return serr("operator %s needs Int operands in %s (got %s, %s)", x.Name, x, a.T.Sort.Name, b.T.Sort.Name)
		}
		return nil
	}
	switch x.Name {
	case "&&":
		if err := needBool(); err != nil {
			return SV{}, err
		}
		return SV{T: c.And(a.T, b.T)}, nil
	case "||":
		if err := needBool(); err != nil {
			return SV{}, err
		}
		return SV{T: c.Or(a.T, b.T)}, nil
	case "==>":
		if err := needBool(); err != nil {
			return SV{}, err
		}
		return SV{T: c.Implies(a.T, b.T)}, nil
	case "<==>":
		if err := needBool(); err != nil {
			return SV{}, err
		}
		return SV{T: c.Eq(a.T, b.T)}, nil
	case "==", "!=":
		// `s == nil` for a Go slice: the nil slice is the zero value of the (arr,len) representation, as in the code's own comparison
		if isSliceSort(a.T.Sort) && isNilLit(x.Args[1]) {
			b = SV{T: e.v.tm.ZeroOf(a.T.Sort)}
		} else if isSliceSort(b.T.Sort) && isNilLit(x.Args[0]) {
			a = SV{T: e.v.tm.ZeroOf(b.T.Sort)}
		}
		if a.T.Sort != b.T.Sort {
			return SV{}, serr("comparison of different sorts %s and %s in %s", a.T.Sort.Name, b.T.Sort.Name, x)
		}
		t := c.Eq(a.T, b.T)
		if x.Name == "!=" {
			t = c.Not(t)
		}
		return SV{T: t}, nil
	case "<", "<=", ">", ">=":
		if err := needInt(); err != nil {
			return SV{}, err
		}
		return SV{T: c.Cmp(x.Name, a.T, b.T)}, nil
	case "+", "-", "*":
		if err := needInt(); err != nil {
			return SV{}, err
		}
		return SV{T: c.Arith(x.Name, a.T, b.T)}, nil
	case "/":
		if err := needInt(); err != nil {
			return SV{}, err
		}
		return SV{T: c.App("div", SInt, a.T, b.T)}, nil
	case "%":
		if err := needInt(); err != nil {
			return SV{}, err
		}
		return SV{T: c.App("mod", SInt, a.T, b.T)}, nil
	}
	return SV{}, serr("unknown operator %s", x.Name)
}

func (e *Env) evalArgs(args []*Expr) ([]SV, error) {
	out := make([]SV, len(args))
	for i, a := range args {
		sv, err := e.Eval(a)
		if err != nil {
			return nil, err
		}
		out[i] = sv
	}
	return out, nil
}

func (e *Env) evalCall(x *Expr) (SV, error) {
	v := e.v
	c := v.c
	switch x.Name {
	case "old":
		if len(x.Args) != 1 {
			return SV{}, serr("old takes one argument")
		}
		if e.old == nil {
			return SV{}, serr("old() used where no pre-state is available: %s", x)
		}
		if len(e.calleeVars) > 0 {
			// an argument term has no entry value; without this, `arg == old(arg)` compared the argument with itself
			ne := e.withState(e.old)
			ne.vars = map[string]SV{}
			for k, sv := range e.vars {
				if !e.calleeVars[k] {
					ne.vars[k] = sv
				}
			}
			ne.calleeVars = nil
			return ne.Eval(x.Args[0])
		}
		return e.withState(e.old).Eval(x.Args[0])
	case "ret":
		// ret(Callee, n, i): i-th result of the n-th call of Callee executed so far in the verified function
		// Callee is a bare name (`BalanceOf`), or - when two callees share the method name - a qualified suffix of the
		// callee's short name written as a selector or a string (`Keeper.OnRecvPacket`, "types.IBCModule.OnRecvPacket")
		callee, cok := "", false
		if len(x.Args) == 3 {
			callee, cok = retCalleeName(x.Args[0])
		}
		if len(x.Args) != 3 || !cok || x.Args[1].Kind != "int" || x.Args[2].Kind != "int" || e.callRet == nil {
			return SV{}, serr("ret(Callee, n, i) is only available in clauses of a function under verification")
		}
		sv, ok := e.callRet(callee, int(x.Args[1].Int.Int64()), int(x.Args[2].Int.Int64()))
		if !ok {
			return SV{}, serr("ret(%s, %s, %s): no such call result recorded at this point", callee, x.Args[1].Int, x.Args[2].Int)
		}
		return sv, nil
	case "oldheap":
		// variables as they are now, heap objects and world variables as they were at function entry
		if len(x.Args) != 1 || e.old == nil {
			return SV{}, serr("oldheap(e) needs a pre-state")
		}
		ne := *e
		ne.heapSt = e.old
		return ne.Eval(x.Args[0])
	case "head":
		if len(x.Args) != 1 {
			return SV{}, serr("head takes one argument")
		}
		if e.headSt == nil {
			return SV{}, serr("head() used outside a loop back/exit clause: %s", x)
		}
		return e.withState(e.headSt).Eval(x.Args[0])
	case "final":
		if len(x.Args) != 1 || x.Args[0].Kind != "id" {
			return SV{}, serr("final(param)")
		}
		if sv, ok := e.vars["$final:"+x.Args[0].Name]; ok {
			return sv, nil
		}
		if e.progVar == nil {
			return SV{}, serr("final() unavailable here")
		}
		ne := *e
		ne.vars = map[string]SV{}
		for k, val := range e.vars {
			if k != x.Args[0].Name {
				ne.vars[k] = val
			}
		}
		sv, ok, err := e.progVar(x.Args[0].Name, e.st)
		if err != nil {
			return SV{}, err
		}
		if !ok {
			return SV{}, serr("final(%s): no such variable", x.Args[0].Name)
		}
		return sv, nil
	case "typeis", "cast":
		// typeis(x, T) / cast(x, T): T is a Go type given as a string literal ("*pkg/path.T", alias) or as a type
		// expression (*Alias). typeis: the interface value x is non-nil with dynamic type T; cast: its value as a T
		// (the terms the executor produces for the type assertion x.(T)). Synonyms of isdyn / dyn.
		if len(x.Args) != 2 {
			return SV{}, serr("%s(x, T)", x.Name)
		}
		a, err := e.Eval(x.Args[0])
		if err != nil {
			return SV{}, err
		}
		tn := typeExprName(x.Args[1])
		if x.Args[1].Kind == "str" {
			tn = x.Args[1].Name
		}
		if tn == "" {
			return SV{}, serr("%s: second argument must name a Go type", x.Name)
		}
		so, gt, err := v.resolveType(tn)
		if err != nil || gt == nil {
			return SV{}, serr("%s: cannot resolve Go type %q", x.Name, tn)
		}
		if a.T.Sort != SInt {
			return SV{}, serr("%s: first argument is not an interface value", x.Name)
		}
		if x.Name == "typeis" {
			return SV{T: c.And(c.Not(c.Eq(a.T, c.Int(0))), c.Eq(c.UF("typeof", SInt, a.T), v.typeTag(gt)))}, nil
		}
		name := "un" + boxName(gt)
		c.DeclareFun(name, []*Sort{SInt}, so)
		return SV{T: c.App(name, so, a.T), GoT: gt}, nil
	case "ite":
		if len(x.Args) != 3 {
			return SV{}, serr("ite takes 3 arguments")
		}
		a, err := e.evalArgs(x.Args)
		if err != nil {
			return SV{}, err
		}
		if a[0].T.Sort != SBool || a[1].T.Sort != a[2].T.Sort {
			return SV{}, serr("ite: ill-sorted in %s", x)
		}
		gt := a[1].GoT
		if gt == nil {
			gt = a[2].GoT
		}
		return SV{T: c.Ite(a[0].T, a[1].T, a[2].T), GoT: gt}, nil
	case "min", "max":
		a, err := e.evalArgs(x.Args)
		if err != nil {
			return SV{}, err
		}
		if len(a) != 2 || a[0].T.Sort != SInt || a[1].T.Sort != SInt {
			return SV{}, serr("%s: two Int arguments", x.Name)
		}
		if x.Name == "min" {
			return SV{T: c.Ite(c.Cmp("<=", a[0].T, a[1].T), a[0].T, a[1].T)}, nil
		}
		return SV{T: c.Ite(c.Cmp(">=", a[0].T, a[1].T), a[0].T, a[1].T)}, nil
	case "convto":
		// convto(x, T): the Go conversion T(x) between a named type with an abstract sort and its representation (e.g.
		// []byte(addr) for an sdk.AccAddress): the same uninterpreted function the engine uses for the code's own conversion
		if len(x.Args) != 2 {
			return SV{}, serr("convto(x, T): two arguments")
		}
		a, err := e.Eval(x.Args[0])
		if err != nil {
			return SV{}, err
		}
		tn := typeExprName(x.Args[1])
		so, gt, err := v.resolveTypeOrSort(tn)
		if err != nil || so == nil {
			return SV{}, serr("convto: cannot resolve type %q", tn)
		}
		if a.T.Sort == so {
			return SV{T: a.T, GoT: gt}, nil
		}
		return SV{T: c.UF("conv_"+sanitize(a.T.Sort.Name)+"_to_"+sanitize(so.Name), so, a.T), GoT: gt}, nil
	case "bytes2str", "str2bytes":
		// the Go conversions string(b) / []byte(s): the same uninterpreted functions the engine uses for the code's conversions
		a, err := e.evalArgs(x.Args)
		if err != nil {
			return SV{}, err
		}
		bs := v.tm.SortOf(types.NewSlice(types.Typ[types.Uint8]))
		from, to := bs, v.tm.SStr
		if x.Name == "str2bytes" {
			from, to = v.tm.SStr, bs
		}
		if len(a) != 1 || a[0].T.Sort != from {
			return SV{}, serr("%s: one argument of sort %s", x.Name, from.Name)
		}
		return SV{T: c.UF("conv_"+sanitize(from.Name)+"_to_"+sanitize(to.Name), to, a[0].T)}, nil
	case "len":
		a, err := e.evalArgs(x.Args)
		if err != nil {
			return SV{}, err
		}
		if len(a) == 1 && !isSliceSort(a[0].T.Sort) {
			for _, at := range v.tm.abstract {
				if at.Sort == a[0].T.Sort && at.SeqLen != "" {
					return SV{T: c.App(at.SeqLen, SInt, a[0].T)}, nil
				}
			}
		}
		if len(a) == 1 && a[0].T.Sort == v.tm.SStr {
			// Go's len(s) of a string: the same uninterpreted str_len the engine uses for the code's own len(s)
			return SV{T: c.UF("str_len", SInt, a[0].T)}, nil
		}
		if len(a) != 1 || !isSliceSort(a[0].T.Sort) {
			return SV{}, serr("len: one slice argument in %s", x)
		}
		return SV{T: c.FieldOf(a[0].T, 1)}, nil
	case "seqeq":
		a, err := e.evalArgs(x.Args)
		if err != nil {
			return SV{}, err
		}
		if len(a) != 2 || !isSliceSort(a[0].T.Sort) || a[0].T.Sort != a[1].T.Sort {
			return SV{}, serr("seqeq: two slices of the same type in %s", x)
		}
		i := c.BoundVar("k", SInt)
		body := c.Implies(c.And(c.Cmp("<=", c.Int(0), i), c.Cmp("<", i, c.FieldOf(a[0].T, 1))),
			c.Eq(c.Select(c.FieldOf(a[0].T, 0), i), c.Select(c.FieldOf(a[1].T, 0), i)))
		return SV{T: c.And(c.Eq(c.FieldOf(a[0].T, 1), c.FieldOf(a[1].T, 1)), c.Quant(true, []*Term{i}, body))}, nil
	case "fresh":
		a, err := e.evalArgs(x.Args)
		if err != nil {
			return SV{}, err
		}
		if len(a) != 1 || e.old == nil {
			return SV{}, serr("fresh(x) needs a pre-state")
		}
		return SV{T: c.And(c.Cmp(">=", a[0].T, v.getGlobal(e.old, "$alloc")), c.Cmp("<", a[0].T, v.getGlobal(e.st, "$alloc")))}, nil
	case "$unfold":
		return SV{}, serr("unfold is only allowed as a hint")
	case "upd":
		a, err := e.evalArgs(x.Args)
		if err != nil {
			return SV{}, err
		}
		if len(a) != 3 || a[0].T.Sort.Kind != KArray || a[1].T.Sort != a[0].T.Sort.Key || a[2].T.Sort != a[0].T.Sort.Elem {
			return SV{}, serr("upd(array, key, value): ill-sorted in %s", x)
		}
		return SV{T: c.Store(a[0].T, a[1].T, a[2].T), GoT: a[0].GoT}, nil
	case "has", "mapput", "mapdel":
		// Go maps (value model dom/val): has(m, k) = k is a key; mapput(m, k, x) = m after m[k] = x; mapdel(m, k) = m after delete(m, k)
		a, err := e.evalArgs(x.Args)
		if err != nil {
			return SV{}, err
		}
		want := 2
		if x.Name == "mapput" {
			want = 3
		}
		if len(a) != want || !isMapSort(a[0].T.Sort) {
			return SV{}, serr("%s: first argument must be a map value, %d arguments expected in %s", x.Name, want, x)
		}
		dom, val := c.FieldOf(a[0].T, 0), c.FieldOf(a[0].T, 1)
		if a[1].T.Sort != dom.Sort.Key {
			return SV{}, serr("%s: key sort %s does not match %s in %s", x.Name, a[1].T.Sort.Name, dom.Sort.Key.Name, x)
		}
		switch x.Name {
		case "has":
			return SV{T: c.Select(dom, a[1].T)}, nil
		case "mapdel":
			return SV{T: c.Ctor(a[0].T.Sort, c.Store(dom, a[1].T, c.Bool(false)), val), GoT: a[0].GoT}, nil
		}
		if a[2].T.Sort != val.Sort.Elem {
			return SV{}, serr("mapput: value sort %s does not match %s in %s", a[2].T.Sort.Name, val.Sort.Elem.Name, x)
		}
		return SV{T: c.Ctor(a[0].T.Sort, c.Store(dom, a[1].T, c.Bool(true)), c.Store(val, a[1].T, a[2].T)), GoT: a[0].GoT}, nil
	case "isdyn", "dyn":
		// isdyn(x, T): interface value x holds a value of concrete type T; dyn(x, T): that value
		if len(x.Args) != 2 {
			return SV{}, serr("%s(x, T)", x.Name)
		}
		a, err := e.Eval(x.Args[0])
		if err != nil {
			return SV{}, err
		}
		tn := typeExprName(x.Args[1])
		if tn == "" {
			return SV{}, serr("%s: second argument must be a type name", x.Name)
		}
		so, gt, err := v.resolveType(tn)
		if err != nil {
			return SV{}, err
		}
		if gt == nil {
			return SV{}, serr("%s: %s has no Go type", x.Name, tn)
		}
		if a.T.Sort != SInt {
			return SV{}, serr("%s: first argument must be an interface value", x.Name)
		}
		if x.Name == "isdyn" {
			return SV{T: c.And(c.Not(c.Eq(a.T, c.Int(0))), c.Eq(c.UF("typeof", SInt, a.T), v.typeTag(gt)))}, nil
		}
		name := "un" + boxName(gt)
		c.DeclareFun(name, []*Sort{SInt}, so)
		return SV{T: c.App(name, so, a.T), GoT: gt}, nil
	case "typeof":
		// dynamic type tag of an interface value (the engine's `typeof` function; nil has no defined tag)
		a, err := e.evalArgs(x.Args)
		if err != nil {
			return SV{}, err
		}
		if len(a) != 1 || a[0].T.Sort != SInt {
			return SV{}, serr("typeof: one interface-valued argument in %s", x)
		}
		return SV{T: c.UF("typeof", SInt, a[0].T)}, nil
	case "unbox":
		// unbox(x, "T"): the value of concrete type T held by interface value x (meaningful where typeof(x) == typetag("T"));
		// the same function the engine uses for x.(T)
		if len(x.Args) != 2 || x.Args[1].Kind != "str" {
			return SV{}, serr("unbox(x, \"T\") in %s", x)
		}
		a, err := e.Eval(x.Args[0])
		if err != nil {
			return SV{}, err
		}
		so, gt, err := v.resolveType(x.Args[1].Name)
		if err != nil {
			return SV{}, err
		}
		if gt == nil || a.T.Sort != SInt {
			return SV{}, serr("unbox: interface value and Go type expected in %s", x)
		}
		name := "un" + boxName(gt)
		c.DeclareFun(name, []*Sort{SInt}, so)
		return SV{T: c.App(name, so, a.T), GoT: gt}, nil
	case "box":
		// box(x, "T"): the interface value holding x of concrete type T - the same function the engine uses when the code converts
		// a T to an interface (MakeInterface); lets a lib spec state facts about a callee applied to a boxed value, e.g.
		// sdk.UnwrapSDKContext(ctx) for an sdk.Context. typeof / unbox of the result are the engine's: unbox(box(x)) == x is
		// assumed wherever the code itself boxes; here only the term is built.
		if len(x.Args) != 2 || x.Args[1].Kind != "str" {
			return SV{}, serr("box(x, \"T\") in %s", x)
		}
		a, err := e.Eval(x.Args[0])
		if err != nil {
			return SV{}, err
		}
		so, gt, err := v.resolveType(x.Args[1].Name)
		if err != nil {
			return SV{}, err
		}
		if gt == nil || a.T.Sort != so {
			return SV{}, serr("box: value of Go type %s expected in %s", x.Args[1].Name, x)
		}
		if _, isIface := gt.Underlying().(*types.Interface); isIface {
			return a, nil
		}
		return SV{T: c.UF(boxName(gt), SInt, a.T)}, nil
	case "implements":
		// implements(x, "I"): x.(I) succeeds for interface type I (the engine's model of a type assertion to an interface)
		if len(x.Args) != 2 || x.Args[1].Kind != "str" {
			return SV{}, serr("implements(x, \"I\") in %s", x)
		}
		a, err := e.Eval(x.Args[0])
		if err != nil {
			return SV{}, err
		}
		_, gt, err := v.resolveType(x.Args[1].Name)
		if err != nil {
			return SV{}, err
		}
		if gt == nil || a.T.Sort != SInt {
			return SV{}, serr("implements: interface value and Go interface type expected in %s", x)
		}
		return SV{T: c.And(c.Not(c.Eq(a.T, c.Int(0))), c.UF(v.implementsSym(gt), SBool, c.UF("typeof", SInt, a.T)))}, nil
	case "floatlit":
		// floatlit("0"): the floating-point literal as the code's constant of the same exact value (uninterpreted sort Float)
		if len(x.Args) != 1 || x.Args[0].Kind != "str" {
			return SV{}, serr("floatlit takes one string literal in %s", x)
		}
		return SV{T: v.floatLit(x.Args[0].Name)}, nil
	case "typetag":
		// tag of a Go type given as a string literal ("*pkg/path.T", aliases allowed): typeof(box(x : T)) == typetag("T")
		if len(x.Args) != 1 || x.Args[0].Kind != "str" {
			return SV{}, serr("typetag takes one string literal naming a Go type in %s", x)
		}
		_, gt, err := v.resolveType(x.Args[0].Name)
		if err != nil {
			return SV{}, err
		}
		if gt == nil {
			return SV{}, serr("typetag: %s is not a Go type", x.Args[0].Name)
		}
		return SV{T: v.typeTag(gt)}, nil
	}
	args, err := e.evalArgs(x.Args)
	if err != nil {
		return SV{}, err
	}
	if sf, ok := v.specFuncs[x.Name]; ok {
		return e.applySpecFunc(sf, args)
	}
	if g, ok := v.ghosts[x.Name]; ok {
		return v.applyGhost(g, args, x)
	}
	if pf, ok := v.pureAs[x.Name]; ok {
		return e.applyPure(pf, args, x)
	}
	if u, ok := v.ufs[x.Name]; ok {
		if len(args) != len(u.PSorts) {
			return SV{}, serr("%s: expected %d arguments, got %d", u.Name, len(u.PSorts), len(args))
		}
		ts := make([]*Term, len(args))
		for i, a := range args {
			if a.T.Sort != u.PSorts[i] {
				return SV{}, serr("%s: argument %d has sort %s, expected %s", u.Name, i+1, a.T.Sort.Name, u.PSorts[i].Name)
			}
			ts[i] = a.T
		}
		return SV{T: v.c.App(u.Name, u.Ret, ts...), GoT: u.RetGoT}, nil
	}
	return SV{}, serr("unknown function %q in %s", x.Name, x)
}

type specFuncDef struct {
	Name   string
	Params []Param
	PSorts []*Sort
	PGoT   []types.Type
	Ret    *Sort
	RetGoT types.Type
	SMT    bool
	Def    *Expr
}

func (e *Env) applySpecFunc(sf *specFuncDef, args []SV) (SV, error) {
	v := e.v
	if len(args) != len(sf.Params) {
		return SV{}, serr("%s: expected %d arguments, got %d", sf.Name, len(sf.Params), len(args))
	}
	for i, a := range args {
		if a.T.Sort != sf.PSorts[i] {
			return SV{}, serr("%s: argument %d has sort %s, expected %s", sf.Name, i+1, a.T.Sort.Name, sf.PSorts[i].Name)
		}
	}
	if sf.SMT {
		ts := make([]*Term, len(args))
		for i, a := range args {
			ts[i] = a.T
		}
		return SV{T: v.c.App(sf.Name, sf.Ret, ts...), GoT: sf.RetGoT}, nil
	}
	ne := &Env{v: v, vars: map[string]SV{}, st: e.st, old: e.old}
	for i, p := range sf.Params {
		ne.vars[p.Name] = SV{T: args[i].T, GoT: sf.PGoT[i]}
	}
	r, err := ne.Eval(sf.Def)
	if err != nil {
		return SV{}, serr("in specfunc %s: %v", sf.Name, err)
	}
	if r.T.Sort != sf.Ret {
		return SV{}, serr("specfunc %s: body has sort %s, declared %s", sf.Name, r.T.Sort.Name, sf.Ret.Name)
	}
	if r.GoT == nil {
		r.GoT = sf.RetGoT
	}
	return r, nil
}

type ghostDef struct {
	G      *GhostFunc
	PSorts []*Sort
	PGoT   []types.Type
	Ret    *Sort
	RetGoT types.Type
	Sym    string
}

func (v *Verifier) applyGhost(g *ghostDef, args []SV, x *Expr) (SV, error) {
	if len(args) != len(g.PSorts) {
		return SV{}, serr("%s: expected %d arguments, got %d", g.G.Name, len(g.PSorts), len(args))
	}
	ts := make([]*Term, len(args))
	for i, a := range args {
		if a.T.Sort != g.PSorts[i] {
			return SV{}, serr("%s: argument %d has sort %s, expected %s (in %s)", g.G.Name, i+1, a.T.Sort.Name, g.PSorts[i].Name, x)
		}
		ts[i] = a.T
	}
	v.c.DeclareFun(g.Sym, g.PSorts, g.Ret)
	return SV{T: v.c.App(g.Sym, g.Ret, ts...), GoT: g.RetGoT}, nil
}

// ghostUnfold returns the defining equation of ghost function application t.
func (v *Verifier) ghostUnfold(g *ghostDef, t *Term) (*Term, error) {
	ne := &Env{v: v, vars: map[string]SV{}, st: newState()}
	for i, p := range g.G.Params {
		ne.vars[p.Name] = SV{T: t.Args[i], GoT: g.PGoT[i]}
	}
	body, err := ne.Eval(g.G.Def)
	if err != nil {
		return nil, serr("in ghost func %s: %v", g.G.Name, err)
	}
	if body.T.Sort != g.Ret {
		return nil, serr("ghost func %s: body sort %s, declared %s", g.G.Name, body.T.Sort.Name, g.Ret.Name)
	}
	return v.c.Eq(t, body.T), nil
}

type pureFunc struct {
	Spec   *FuncSpec
	Sig    *types.Signature
	Name   string
	Params []string // names incl. receiver
	PTypes []types.Type
}

func (e *Env) applyPure(pf *pureFunc, args []SV, x *Expr) (SV, error) {
	v := e.v
	if len(args) != len(pf.PTypes) {
		return SV{}, serr("%s: expected %d arguments, got %d", pf.Name, len(pf.PTypes), len(args))
	}
	ts := make([]*Term, len(args))
	for i, a := range args {
		want := v.tm.SortOf(pf.PTypes[i])
		if a.T.Sort != want {
			return SV{}, serr("%s: argument %d has sort %s, expected %s", pf.Name, i+1, a.T.Sort.Name, want.Name)
		}
		ts[i] = a.T
	}
	res := pf.Sig.Results()
	if res.Len() != 1 {
		return SV{}, serr("%s: pure functions usable in specs must have exactly one result", pf.Name)
	}
	rt := res.At(0).Type()
	t, err := v.pureResult(pf, ts, e.st)
	if err != nil {
		return SV{}, err
	}
	return SV{T: t, GoT: rt}, nil
}

// pureResult gives the result term of a pure (single-result) function on argument terms.
func (v *Verifier) pureResult(pf *pureFunc, ts []*Term, st *State) (*Term, error) {
	rt := pf.Sig.Results().At(0).Type()
	rs := v.tm.SortOf(rt)
	if pf.Spec.Def != nil {
		ne := &Env{v: v, vars: map[string]SV{}, st: st, old: st}
		for i, n := range pf.Params {
			ne.vars[n] = SV{T: ts[i], GoT: pf.PTypes[i]}
		}
		r, err := ne.Eval(pf.Spec.Def)
		if err != nil {
			return nil, serr("in def of %s: %v", pf.Spec.Key, err)
		}
		if r.T.Sort != rs {
			return nil, serr("def of %s has sort %s, result sort is %s", pf.Spec.Key, r.T.Sort.Name, rs.Name)
		}
		return r.T, nil
	}
	all := append([]*Term{}, ts...)
	for _, w := range pf.Spec.Reads {
		all = append(all, v.getGlobal(st, w))
	}
	return v.c.UF("pure_"+sanitize(pf.Name), rs, all...), nil
}

// subslice builds s[lo:hi] under value semantics.
func (v *Verifier) subslice(s, lo, hi *Term) *Term {
	c := v.c
	arr := c.FieldOf(s, 0)
	if !(lo.Op == "int" && lo.IntVal.Sign() == 0) {
		arr = v.shiftArr(arr, lo)
	}
	return c.Ctor(s.Sort, arr, c.Arith("-", hi, lo))
}

func (v *Verifier) shiftArr(arr, k *Term) *Term {
	c := v.c
	name := "shift_" + sanitize(arr.Sort.Elem.Name)
	if _, ok := c.funcs[name]; !ok {
		c.DeclareFun(name, []*Sort{arr.Sort, SInt}, arr.Sort)
		c.AddAxiom(name, fmt.Sprintf("(assert (forall ((a %s) (k Int) (i Int)) (! (= (select (%s a k) i) (select a (+ i k))) :pattern ((select (%s a k) i)))))",
			arr.Sort.Name, name, name))
	}
	return c.App(name, arr.Sort, arr, k)
}

// catArr: elements of a (first n) followed by elements of b.
func (v *Verifier) catArr(a, n, b *Term) *Term {
	c := v.c
	name := "cat_" + sanitize(a.Sort.Elem.Name)
	if _, ok := c.funcs[name]; !ok {
		c.DeclareFun(name, []*Sort{a.Sort, SInt, a.Sort}, a.Sort)
		c.AddAxiom(name, fmt.Sprintf("(assert (forall ((a %s) (n Int) (b %s) (i Int)) (! (= (select (%s a n b) i) (ite (< i n) (select a i) (select b (- i n)))) :pattern ((select (%s a n b) i)))))",
			a.Sort.Name, a.Sort.Name, name, name))
	}
	return c.App(name, a.Sort, a, n, b)
}

// spliceArr: b on [0,n), a elsewhere (copy(dst=a, src=b) of n elements).
func (v *Verifier) spliceArr(a, b, n *Term) *Term {
	c := v.c
	name := "splice_" + sanitize(a.Sort.Elem.Name)
	if _, ok := c.funcs[name]; !ok {
		c.DeclareFun(name, []*Sort{a.Sort, a.Sort, SInt}, a.Sort)
		c.AddAxiom(name, fmt.Sprintf("(assert (forall ((a %s) (b %s) (n Int) (i Int)) (! (= (select (%s a b n) i) (ite (and (<= 0 i) (< i n)) (select b i) (select a i))) :pattern ((select (%s a b n) i)))))",
			a.Sort.Name, a.Sort.Name, name, name))
	}
	return c.App(name, a.Sort, a, b, n)
}

// typeExprName renders a type written in expression position (CVA, *CVA, pkg.T) back to its name.
func typeExprName(e *Expr) string {
	switch e.Kind {
	case "id":
		return e.Name
	case "un":
		if e.Name == "*" {
			if in := typeExprName(e.Args[0]); in != "" {
				return "*" + in
			}
		}
	case "field":
		if in := typeExprName(e.Args[0]); in != "" {
			return in + "." + e.Name
		}
	}
	return ""
}

// spliceOffArr: b[0..n) written into a at [off, off+n).
func (v *Verifier) spliceOffArr(a, b, off, n *Term) *Term {
	c := v.c
	name := "spliceoff_" + sanitize(a.Sort.Elem.Name)
	if _, ok := c.funcs[name]; !ok {
		c.DeclareFun(name, []*Sort{a.Sort, a.Sort, SInt, SInt}, a.Sort)
		c.AddAxiom(name, fmt.Sprintf("(assert (forall ((a %s) (b %s) (o Int) (n Int) (i Int)) (! (= (select (%s a b o n) i) (ite (and (<= o i) (< i (+ o n))) (select b (- i o)) (select a i))) :pattern ((select (%s a b o n) i)))))",
			a.Sort.Name, a.Sort.Name, name, name))
	}
	return c.App(name, a.Sort, a, b, off, n)
}

// retCalleeName: the callee pattern of ret(Callee, n, i): an identifier, a dotted selector of identifiers or a string literal.
func retCalleeName(x *Expr) (string, bool) {
	switch x.Kind {
	case "id", "str":
		return x.Name, x.Name != ""
	case "field":
		if len(x.Args) == 1 {
			if base, ok := retCalleeName(x.Args[0]); ok {
				return base + "." + x.Name, true
			}
		}
	}
	return "", false
}
