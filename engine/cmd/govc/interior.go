package main

// Interior pointers used as values (&x.f stored in a struct, boxed in an interface, returned).
//
// Model: the pointer is the value of an uninterpreted function of the owning object's reference (so taking the same
// address twice gives the same pointer), it is non-nil, it existed before "now" (below the allocation counter, hence
// different from every later allocation), and its pointee in the heap of the field's type equals the field - for ever,
// which is sound only for fields that are IMMUTABLE AFTER CONSTRUCTION. That side condition is checked syntactically
// over every function body of the loaded program:
//   * the field is stored to only through a base object allocated in the same function (constructor / composite literal),
//   * no whole-struct store overwrites an existing object of the owning struct type,
//   * no store goes through a pointer VALUE of the field's type (only through locals' own cells).
// Anything else is an engine error (never a pass).

import (
	"fmt"
	"go/types"

	"golang.org/x/tools/go/ssa"
	"golang.org/x/tools/go/ssa/ssautil"
)

func fieldOnlyPath(p []PathElem) bool {
	if len(p) == 0 {
		return false
	}
	for _, pe := range p {
		if pe.Idx != nil || pe.Field < 0 {
			return false
		}
	}
	return true
}

func (v *Verifier) interiorPtr(st *State, l *Loc) *Term {
	c := v.c
	if l.GoT == nil {
		unsupported("interior pointer without Go type")
	}
	name := "fieldaddr_" + sanitize(l.HeapKey)
	for _, pe := range l.Path {
		name += fmt.Sprintf("_%d", pe.Field)
	}
	if v.interiorKinds == nil {
		v.interiorKinds = map[string]int64{}
		v.interiorChecked = map[string]bool{}
	}
	if !v.interiorChecked[name] {
		v.checkImmutableFieldPath(l)
		v.interiorChecked[name] = true
	}
	k, ok := v.interiorKinds[name]
	if !ok {
		k = int64(len(v.interiorKinds) + 1)
		v.interiorKinds[name] = k
	}
	p := c.UF(name, SInt, l.Ref)
	st.assume(c, c.Cmp("<", c.Int(0), p))
	st.assume(c, c.Cmp("<", p, v.getGlobal(st, "$alloc")))
	st.assume(c, c.Eq(c.UF("fieldaddr_owner", SInt, p), l.Ref))
	st.assume(c, c.Eq(c.UF("fieldaddr_kind", SInt, p), c.Int(k)))
	hk := v.heapKeyFor(l.GoT)
	st.assume(c, c.Eq(c.Select(v.getGlobal(st, hk), p), v.load(st, l)))
	v.notes["interior pointers used as values are modelled as pointers to the (checked immutable-after-construction) field: "+name] = true
	return p
}

// standaloneRef records that a freshly allocated reference is not an interior pointer.
func (v *Verifier) standaloneRef(st *State, ref *Term) {
	st.assume(v.c, v.c.Eq(v.c.UF("fieldaddr_kind", SInt, ref), v.c.Int(0)))
}

// checkImmutableFieldPath enforces the side condition described at the top of this file.
func (v *Verifier) checkImmutableFieldPath(l *Loc) {
	// walk the path to find (struct type, field index) of every step and the final field type
	hk := l.HeapKey
	var owner types.Type
	for t := range v.heapGoTypes() {
		if v.heapKeyFor(t) == hk {
			owner = t
			break
		}
	}
	if owner == nil {
		unsupported("interior pointer: cannot determine the Go type of heap %s", hk)
	}
	type step struct {
		st  types.Type
		idx int
	}
	var steps []step
	cur := owner
	for _, pe := range l.Path {
		stt, ok := cur.Underlying().(*types.Struct)
		if !ok {
			unsupported("interior pointer: path through non-struct %s", cur)
		}
		steps = append(steps, step{cur, pe.Field})
		cur = stt.Field(pe.Field).Type()
	}
	fieldT := cur
	isLocalBase := func(x ssa.Value) bool {
		for {
			switch t := x.(type) {
			case *ssa.Alloc:
				return true
			case *ssa.FieldAddr:
				x = t.X
			case *ssa.IndexAddr:
				x = t.X
			default:
				return false
			}
		}
	}
	for fn := range ssautil.AllFunctions(v.prog) {
		for _, b := range fn.Blocks {
			for _, in := range b.Instrs {
				s, ok := in.(*ssa.Store)
				if !ok {
					continue
				}
				at := pointee(s.Addr.Type())
				if at == nil {
					continue
				}
				pos := v.fset.Position(s.Pos())
				if fa, ok := s.Addr.(*ssa.FieldAddr); ok {
					base := pointee(fa.X.Type())
					for _, sp := range steps {
						if base != nil && types.Identical(base, sp.st) && fa.Field == sp.idx && !isLocalBase(fa.X) {
							unsupported("interior pointer to %s field #%d: the field is written at %s (not immutable after construction)", sp.st, sp.idx, pos)
						}
					}
					continue
				}
				if isLocalBase(s.Addr) {
					continue
				}
				for _, sp := range steps {
					if types.Identical(at, sp.st) {
						unsupported("interior pointer into %s: an object of that type is overwritten at %s", sp.st, pos)
					}
				}
				if types.Identical(at, fieldT) {
					unsupported("interior pointer of type *%s: a store through a pointer value of that type at %s", fieldT, pos)
				}
			}
		}
	}
}

// heapGoTypes lists the Go types for which a heap has been requested so far (pointee types seen by the engine).
func (v *Verifier) heapGoTypes() map[types.Type]bool {
	out := map[types.Type]bool{}
	for _, t := range v.heapTypes {
		out[t] = true
	}
	return out
}
