package main

// Symbolic execution of go/ssa (NaiveForm) with loop cutting and modular calls.

import (
	"fmt"
	"go/constant"
	"go/token"
	"go/types"
	"math/big"
	"os"
	"sort"
	"strings"

	"golang.org/x/tools/go/ssa"
)

type FuncCtx struct {
	v            *Verifier
	fn           *ssa.Function
	spec         *FuncSpec
	key          string
	short        string
	entry        *State
	paramSV      map[string]SV
	paramOrder   []string
	resNames     []string
	allocsByName map[string][]*ssa.Alloc
	cellClass    map[*ssa.Alloc]bool
	safeCount    map[string]int
	callCount    map[string]int
	mutatedParam map[string]bool
	loopOrd      map[*ssa.BasicBlock]int
	nextLoop     int
	loopHeadSt   map[*ssa.BasicBlock]*State
	loopFrames   map[*ssa.BasicBlock][]string
	ghostVars    map[string]SV
	callResults  map[string][]SV
	heapAllocs   map[*ssa.Alloc]*Term // reference of the heap object created by the latest execution of an escaping local's Alloc
	freeSV       map[string]SV
	dispatchRecv types.Type // receiver type of the implementation whose contract is being applied by dispatchCall
	depth        int
	nRet         int
}

type Frame struct {
	fn     *ssa.Function
	vals   map[ssa.Value]Val
	free   map[*ssa.FreeVar]Val
	fc     *FuncCtx
	parent *Frame
	defers []*ssa.Defer // deferred closures (registered in the entry block) to execute at RunDefers, see instr.go
}

// deferredClosureWrites reports whether d defers a function literal that writes a variable it captures.
func deferredClosureWrites(d *ssa.Defer) bool {
	mc, ok := d.Call.Value.(*ssa.MakeClosure)
	if !ok {
		return false
	}
	for _, b := range mc.Fn.(*ssa.Function).Blocks {
		for _, in := range b.Instrs {
			if s, ok := in.(*ssa.Store); ok {
				if _, isFV := s.Addr.(*ssa.FreeVar); isFV {
					return true
				}
			}
		}
	}
	return false
}

type retInfo struct {
	st      *State
	results []Val
	key     string // "<source text of the return statement>#k" (top-level function only)
}

func shortFuncName(key string) string {
	// (github.com/a/b/c.T).M -> c.T.M ; github.com/a/b/c.F -> c.F
	s := key
	s = strings.ReplaceAll(s, "(", "")
	s = strings.ReplaceAll(s, ")", "")
	star := ""
	if strings.HasPrefix(s, "*") {
		s = s[1:]
		star = ""
	}
	if i := strings.LastIndex(s, "/"); i >= 0 {
		s = s[i+1:]
	}
	return star + s
}

// ------------------------------------------------------------ top level

func (v *Verifier) VerifyFunction(key string) {
	spec := v.specs[key]
	fn := v.findFunction(key)
	if fn == nil {
		v.engineErrors = append(v.engineErrors, fmt.Sprintf("%s: function not found in loaded packages", key))
		return
	}
	defer func() {
		if r := recover(); r != nil {
			if ee, ok := r.(engineError); ok {
				v.engineErrors = append(v.engineErrors, fmt.Sprintf("%s: %s", key, ee.msg))
				return
			}
			if se, ok := r.(specError); ok {
				v.engineErrors = append(v.engineErrors, fmt.Sprintf("%s: contract error: %s", key, se.msg))
				return
			}
			panic(r)
		}
	}()
	fc := &FuncCtx{v: v, fn: fn, spec: spec, key: key, short: shortFuncName(key), paramSV: map[string]SV{}, allocsByName: map[string][]*ssa.Alloc{},
		cellClass: map[*ssa.Alloc]bool{}, safeCount: map[string]int{}, callCount: map[string]int{}, mutatedParam: map[string]bool{},
		loopOrd: map[*ssa.BasicBlock]int{}, loopHeadSt: map[*ssa.BasicBlock]*State{}, ghostVars: map[string]SV{}, callResults: map[string][]SV{}, freeSV: map[string]SV{}, heapAllocs: map[*ssa.Alloc]*Term{}, loopFrames: map[*ssa.BasicBlock][]string{}}
	for _, g := range spec.Ghosts {
		so, gt, err := v.resolveTypeOrSort(g.Type)
		if err != nil {
			panic(specError{err.Error()})
		}
		fc.ghostVars[g.Name] = SV{T: v.c.Const(fc.short+".ghost."+g.Name, so), GoT: gt}
	}
	if spec.Structural {
		v.funcCtxs[key] = fc
		v.checkWired(fc)
		return
	}
	fc.indexAllocs(fn)
	v.funcCtxs[key] = fc
	st := newState()
	fr := &Frame{fn: fn, vals: map[ssa.Value]Val{}, free: map[*ssa.FreeVar]Val{}, fc: fc}
	c := v.c
	alloc0 := v.getGlobal(st, "$alloc")
	st.assume(c, c.Cmp(">", alloc0, c.Int(0)))
	for pi, p := range fn.Params {
		so := v.tm.SortOf(p.Type())
		name := p.Name()
		if name == "_" {
			// several blank parameters of different types would share one constant name
			name = fmt.Sprintf("_%d", pi)
		}
		t := c.Const(fc.short+"."+name, so)
		fr.vals[p] = Val{T: t, GoT: p.Type()}
		fc.paramSV[name] = SV{T: t, GoT: p.Type()}
		fc.paramOrder = append(fc.paramOrder, name)
		v.assumeTyped(st, t, p.Type(), alloc0)
		if fn.Signature.Recv() != nil && p == fn.Params[0] && pointee(p.Type()) != nil {
			// a method called on a nil receiver is a programming error outside every property: receivers are non-nil
			st.assume(c, c.Not(c.Eq(t, c.Int(0))))
		}
	}
	// a function literal verified on its own: captured variables are read-only unknowns of the enclosing function,
	// addressable in the contract by their names
	for _, fv := range fn.FreeVars {
		el := pointee(fv.Type())
		if el == nil {
			unsupported("captured variable %s is not a variable reference", fv.Name())
		}
		so := v.tm.SortOf(el)
		t := c.Const(fc.short+".free."+fv.Name(), so)
		if fc.writesFreeVar(fv) {
			// the literal assigns to the captured variable: it lives in a pre-existing object of its own (entry value t)
			ref := c.Const(fc.short+".freeref."+fv.Name(), SInt)
			st.assume(c, c.Cmp(">", ref, c.Int(0)))
			st.assume(c, c.Cmp("<", ref, alloc0))
			hk := v.heapKeyFor(el)
			st.assume(c, c.Eq(c.Select(v.getGlobal(st, hk), ref), t))
			fr.free[fv] = Val{Loc: &Loc{Ref: ref, HeapKey: hk, Sort: so, GoT: el, RSort: so}, GoT: fv.Type()}
			fc.paramSV[fv.Name()] = SV{T: t, GoT: el}
			continue
		}
		fr.free[fv] = Val{Loc: &Loc{Root: t, Sort: so, GoT: el}, GoT: fv.Type()}
		fc.paramSV[fv.Name()] = SV{T: t, GoT: el}
		fc.freeSV[fv.Name()] = SV{T: t, GoT: el}
		v.assumeTyped(st, t, el, alloc0)
	}
	if spec != nil && len(spec.ParamNames) > 0 {
		if len(spec.ParamNames) != len(fn.Params) {
			unsupported("params clause has %d names, function has %d", len(spec.ParamNames), len(fn.Params))
		}
		for i, n := range spec.ParamNames {
			fc.paramSV[n] = fc.paramSV[fc.paramOrder[i]]
		}
	}
	res := fn.Signature.Results()
	for i := 0; i < res.Len(); i++ {
		fc.resNames = append(fc.resNames, res.At(i).Name())
	}
	v.assumeGlobals(st, alloc0)
	// world axioms
	for _, ax := range v.axioms {
		env := fc.env(st, st)
		t, err := env.EvalBool(ax.E)
		if err != nil {
			panic(specError{fmt.Sprintf("axiom: %v", err)})
		}
		st.assume(c, t)
	}
	// requires
	pre := fc.env(st, st)
	pre.vars = fc.paramVars()
	for _, r := range spec.Requires {
		t, err := pre.EvalBool(r.E)
		if err != nil {
			panic(specError{fmt.Sprintf("requires (line %d): %v", r.Line, err)})
		}
		st.assume(c, t)
	}
	for _, u := range spec.Uses {
		if u.Where == "entry" {
			fc.applyUse(st, pre, u)
		}
	}
	fc.entry = st.clone()
	v.addObligation(&Obligation{Name: fc.short + "#cover.requires", Kind: "cover", Func: key, Assume: st.pc, Expect: "sat"})
	rets := fc.execFunc(fr, st.clone())
	if len(rets) == 0 {
		v.notes[fmt.Sprintf("%s: no reachable return", key)] = true
		v.funcsDone = append(v.funcsDone, key)
		return
	}
	final, results := fc.mergeReturns(fn, rets)
	env := fc.env(final, fc.entry)
	env.vars = fc.paramVars()
	for i, r := range results {
		var gt types.Type
		if i < res.Len() {
			gt = res.At(i).Type()
		}
		env.results = append(env.results, SV{T: v.asTerm(final, r), GoT: gt})
	}
	env.resNames = fc.resNames
	for _, u := range spec.Uses {
		if u.Where == "return" {
			fc.applyUse(final, env, u)
		}
	}
	v.addObligation(&Obligation{Name: fc.short + "#canary.return", Kind: "canary", Func: key, Assume: final.pc, Expect: "sat"})
	for i, e := range spec.Ensures {
		t, err := env.EvalBool(e.E)
		label := e.Label
		if label == "" {
			label = fmt.Sprint(i + 1)
		}
		if err != nil && strings.Contains(err.Error(), "no such call result recorded") {
			// the postcondition names the result of a call (`ret(Callee, n, i)`) that the function never makes - e.g. the call was
			// removed: nothing can establish such a clause. Report it as a failed obligation (it names what broke) instead of
			// stopping with a contract error.
			if v.clauseSelected(label) {
				v.addObligation(&Obligation{Name: fc.short + "#post." + label, Kind: "post", Func: key, Assume: final.pc, Goal: v.c.Bool(false), Expect: "unsat", Src: e.Src,
					Note: "the clause names the result of a call the function never makes: " + err.Error()})
			}
			continue
		}
		if err != nil {
			panic(specError{fmt.Sprintf("ensures (line %d): %v", e.Line, err)})
		}
		if !v.clauseSelected(label) {
			continue
		}
		if spec.SplitPosts[label] || spec.SplitPosts["*"] {
			// `split LABEL...`: the postcondition is proved once per return statement over that return's own state instead of
			// once over the merged state of all returns (many small queries instead of one with an n-way case split)
			for _, r := range rets {
				if r.st.dead {
					continue
				}
				renv := fc.env(r.st, fc.entry)
				renv.vars = fc.paramVars()
				for i2, rv := range r.results {
					var gt types.Type
					if i2 < res.Len() {
						gt = res.At(i2).Type()
					}
					renv.results = append(renv.results, SV{T: v.asTerm(r.st, rv), GoT: gt})
				}
				renv.resNames = fc.resNames
				rst := r.st
				for _, u := range spec.Uses {
					if u.Where == "return" {
						rst = rst.clone()
						fc.applyUse(rst, renv, u)
					}
				}
				rt, err := renv.EvalBool(e.E)
				if err != nil {
					panic(specError{fmt.Sprintf("ensures (line %d): %v", e.Line, err)})
				}
				v.addObligation(&Obligation{Name: fc.short + "#post." + label + "[" + r.key + "]", Kind: "post", Func: key, Assume: rst.pc, Goal: rt, Expect: "unsat", Src: e.Src, wenv: renv})
			}
			continue
		}
		v.addObligation(&Obligation{Name: fc.short + "#post." + label, Kind: "post", Func: key, Assume: final.pc, Goal: t, Expect: "unsat", Src: e.Src, wenv: env})
	}
	fc.frameObligations(final)
	for p := range fc.mutatedParam {
		if !fc.declaresElems(p) {
			unsupported("elements of slice parameter %s are written but the contract has no 'modifies elems(%s)'", p, p)
		}
	}
	v.funcsDone = append(v.funcsDone, key)
}

func (fc *FuncCtx) declaresElems(p string) bool {
	for _, m := range fc.spec.Modifies {
		if m.Kind == "call" && m.Name == "elems" && len(m.Args) == 1 && m.Args[0].Kind == "id" && m.Args[0].Name == p {
			return true
		}
	}
	return false
}

func (fc *FuncCtx) paramVars() map[string]SV {
	m := map[string]SV{}
	for k, g := range fc.ghostVars {
		m[k] = g
	}
	for k, sv := range fc.paramSV {
		m[k] = sv
	}
	return m
}

func (fc *FuncCtx) indexAllocs(fn *ssa.Function) {
	for _, b := range fn.Blocks {
		for _, in := range b.Instrs {
			if a, ok := in.(*ssa.Alloc); ok {
				if a.Comment != "" {
					fc.allocsByName[a.Comment] = append(fc.allocsByName[a.Comment], a)
				}
			}
		}
	}
	for _, af := range fn.AnonFuncs {
		fc.indexAllocs(af)
	}
}

func (fc *FuncCtx) env(st, old *State) *Env {
	e := &Env{v: fc.v, vars: map[string]SV{}, lets: map[string]string{}, st: st, old: old}
	for k, g := range fc.ghostVars {
		e.vars[k] = g
	}
	if fc.spec != nil {
		for _, l := range fc.spec.Lets {
			e.lets[l.Name] = l.Type
		}
	}
	e.callRet = func(name string, ord, idx int) (SV, bool) {
		for k, rs := range fc.callResults {
			// keys are "<short callee>#<ord>"
			hash := strings.LastIndex(k, "#")
			cs, o := k[:hash], k[hash+1:]
			if o == fmt.Sprint(ord) && (cs == name || strings.HasSuffix(cs, "."+name)) && idx < len(rs) {
				return rs[idx], true
			}
		}
		return SV{}, false
	}
	e.progVar = func(name string, s *State) (SV, bool, error) {
		base := name
		pick := -1
		if k := strings.LastIndex(name, "$"); k > 0 {
			var n int
			if _, err := fmt.Sscanf(name[k+1:], "%d", &n); err == nil {
				base, pick = name[:k], n-1
			}
		}
		// a parameter renamed by the `params` clause is the same variable under its contract name (loop invariants,
		// call-site clauses): resolve it to the Go name's cell, or to the entry value when it has none (blank parameter)
		if fc.spec != nil && pick < 0 && len(fc.allocsByName[base]) == 0 {
			for i, n := range fc.spec.ParamNames {
				if n == base && i < len(fc.fn.Params) {
					if gn := fc.fn.Params[i].Name(); gn != "_" && len(fc.allocsByName[gn]) > 0 {
						base = gn
					} else if sv, ok := fc.paramSV[n]; ok {
						return sv, true, nil
					}
					break
				}
			}
		}
		as := fc.allocsByName[base]
		if len(as) == 0 {
			// captured variable of a function literal verified on its own
			if sv, ok := fc.freeSV[name]; ok {
				return sv, true, nil
			}
			return SV{}, false, nil
		}
		var a *ssa.Alloc
		switch {
		case pick >= 0 && pick < len(as):
			a = as[pick]
		case len(as) == 1:
			a = as[0]
		default:
			// prefer the unique alloc that currently has a value
			n := 0
			for _, x := range as {
				if _, ok := s.cells[x]; ok {
					a = x
					n++
				}
			}
			if n != 1 {
				return SV{}, false, serr("variable name %q is ambiguous (%d declarations); use %s$k", name, len(as), name)
			}
		}
		gt := a.Type().(*types.Pointer).Elem()
		if t, ok := s.cells[a]; ok {
			return SV{T: t, GoT: gt}, true, nil
		}
		if ref, ok := fc.heapAllocs[a]; ok {
			// a local whose address escapes lives in the heap: its value is the pointee of the latest allocation
			return SV{T: fc.v.c.Select(fc.v.getGlobal(s, fc.v.heapKeyFor(gt)), ref), GoT: gt}, true, nil
		}
		if sv, ok := fc.paramSV[base]; ok {
			return sv, true, nil
		}
		return SV{T: fc.v.tm.ZeroOf(fc.cellSort(a)), GoT: gt}, true, nil
	}
	return e
}

func (v *Verifier) addObligation(o *Obligation) {
	// unique names
	base := o.Name
	n := 1
	for _, x := range v.obligations {
		if x.Name == o.Name {
			n++
			o.Name = fmt.Sprintf("%s~%d", base, n)
		}
	}
	o.Assume = append([]*Term{}, o.Assume...)
	v.obligations = append(v.obligations, o)
}

func (v *Verifier) assumeTyped(st *State, t *Term, gt types.Type, alloc0 *Term) {
	c := v.c
	if t.Op == "int" {
		return
	}
	if lo, hi, ok := intRange(gt); ok {
		st.assume(c, c.Cmp("<=", c.BigInt(lo), t))
		st.assume(c, c.Cmp("<=", t, c.BigInt(hi)))
		return
	}
	switch gt.Underlying().(type) {
	case *types.Pointer:
		st.assume(c, c.Cmp("<=", c.Int(0), t))
		if alloc0 != nil {
			st.assume(c, c.Cmp("<", t, alloc0))
		}
	case *types.Slice:
		if isSliceSort(t.Sort) {
			st.assume(c, c.Cmp("<=", c.Int(0), c.FieldOf(t, 1)))
		}
	case *types.Struct:
		// slice-typed fields of a struct value have non-negative length, integer fields are in range (one level)
		stt := gt.Underlying().(*types.Struct)
		if t.Sort.Kind == KData && len(t.Sort.Fields) == stt.NumFields() {
			for i := 0; i < stt.NumFields(); i++ {
				ft := stt.Field(i).Type()
				if _, isSl := ft.Underlying().(*types.Slice); isSl && isSliceSort(t.Sort.Fields[i].Sort) {
					st.assume(c, c.Cmp("<=", c.Int(0), c.FieldOf(c.FieldOf(t, i), 1)))
				}
			}
		}
	}
}

// applyUse adds a lemma instance (requires ==> ensures) or an unfold instance to the state.
func (fc *FuncCtx) applyUse(st *State, env *Env, u Clause) {
	t, err := fc.v.useTerm(env.withState(st), u.E)
	if err != nil {
		panic(specError{fmt.Sprintf("use (line %d): %v", u.Line, err)})
	}
	st.assume(fc.v.c, t)
}

func (v *Verifier) useTerm(env *Env, e *Expr) (*Term, error) {
	if e.Kind != "call" {
		return nil, serr("use: expected L(args), got %s", e)
	}
	if e.Name == "$unfold" {
		sv, err := env.Eval(e.Args[0])
		if err != nil {
			return nil, err
		}
		for _, g := range v.ghosts {
			if sv.T.Op == "app" && sv.T.Name == g.Sym {
				return v.ghostUnfold(g, sv.T)
			}
		}
		return nil, serr("unfold: %s is not a ghost function application", e.Args[0])
	}
	if e.Name == "assume" {
		return nil, serr("assume is not supported")
	}
	l, ok := v.lemmas[e.Name]
	if !ok {
		return nil, serr("use: unknown lemma %s", e.Name)
	}
	args, err := env.evalArgs(e.Args)
	if err != nil {
		return nil, err
	}
	return v.lemmaInstance(l, args)
}

func (v *Verifier) lemmaInstance(l *Lemma, args []SV) (*Term, error) {
	if len(args) != len(l.Params) {
		return nil, serr("lemma %s: expected %d arguments, got %d", l.Name, len(l.Params), len(args))
	}
	le := &Env{v: v, vars: map[string]SV{}, st: newState()}
	for i, p := range l.Params {
		so, gt, err := v.resolveTypeOrSort(p.Type)
		if err != nil {
			return nil, err
		}
		if args[i].T.Sort != so {
			return nil, serr("lemma %s: argument %s has sort %s, expected %s", l.Name, p.Name, args[i].T.Sort.Name, so.Name)
		}
		le.vars[p.Name] = SV{T: args[i].T, GoT: gt}
	}
	var reqs, enss []*Term
	for _, r := range l.Requires {
		t, err := le.EvalBool(r.E)
		if err != nil {
			return nil, err
		}
		reqs = append(reqs, t)
	}
	for _, r := range l.Ensures {
		t, err := le.EvalBool(r.E)
		if err != nil {
			return nil, err
		}
		enss = append(enss, t)
	}
	return v.c.Implies(v.c.And(reqs...), v.c.And(enss...)), nil
}

// ------------------------------------------------------------ CFG helpers

type cfgInfo struct {
	rpo      []*ssa.BasicBlock
	backEdge map[[2]int]bool
	headers  map[*ssa.BasicBlock][]*ssa.BasicBlock // header -> back edge sources
	loopBody map[*ssa.BasicBlock]map[*ssa.BasicBlock]bool
	loopExt  map[*ssa.BasicBlock]map[*ssa.BasicBlock]bool // natural loop plus break tails (blocks run on the way out)
}

func analyzeCFG(fn *ssa.Function) *cfgInfo {
	ci := &cfgInfo{backEdge: map[[2]int]bool{}, headers: map[*ssa.BasicBlock][]*ssa.BasicBlock{}, loopBody: map[*ssa.BasicBlock]map[*ssa.BasicBlock]bool{},
		loopExt: map[*ssa.BasicBlock]map[*ssa.BasicBlock]bool{}}
	for _, b := range fn.Blocks {
		for _, s := range b.Succs {
			if s.Dominates(b) {
				ci.backEdge[[2]int{b.Index, s.Index}] = true
				ci.headers[s] = append(ci.headers[s], b)
			}
		}
	}
	// natural loops
	for h, srcs := range ci.headers {
		body := map[*ssa.BasicBlock]bool{h: true}
		var stack []*ssa.BasicBlock
		for _, s := range srcs {
			if !body[s] {
				body[s] = true
				stack = append(stack, s)
			}
		}
		for len(stack) > 0 {
			x := stack[len(stack)-1]
			stack = stack[:len(stack)-1]
			for _, p := range x.Preds {
				if !body[p] {
					body[p] = true
					stack = append(stack, p)
				}
			}
		}
		ci.loopBody[h] = body
		// break tails: blocks outside the natural loop that are only reachable from it and are not the
		// loop's ordinary exit target (the successor of the header outside the loop)
		ext := map[*ssa.BasicBlock]bool{}
		for b := range body {
			ext[b] = true
		}
		var done *ssa.BasicBlock
		for _, s := range h.Succs {
			if !body[s] {
				done = s
			}
		}
		changed := true
		for changed {
			changed = false
			for b := range ext {
				for _, e := range b.Succs {
					if ext[e] || e == done {
						continue
					}
					ok := true
					for _, p := range e.Preds {
						if !ext[p] {
							ok = false
						}
					}
					if ok {
						ext[e] = true
						changed = true
					}
				}
			}
		}
		ci.loopExt[h] = ext
	}
	// reverse postorder ignoring back edges
	visited := map[*ssa.BasicBlock]bool{}
	var post []*ssa.BasicBlock
	var dfs func(b *ssa.BasicBlock)
	dfs = func(b *ssa.BasicBlock) {
		visited[b] = true
		for _, s := range b.Succs {
			if ci.backEdge[[2]int{b.Index, s.Index}] || visited[s] {
				continue
			}
			dfs(s)
		}
		post = append(post, b)
	}
	if len(fn.Blocks) > 0 {
		dfs(fn.Blocks[0])
	}
	for i := len(post) - 1; i >= 0; i-- {
		ci.rpo = append(ci.rpo, post[i])
	}
	return ci
}

// ------------------------------------------------------------ merging

func (v *Verifier) mergeStates(sts []*State) (*State, []*Term) {
	c := v.c
	var live []*State
	for _, s := range sts {
		if !s.dead {
			live = append(live, s)
		}
	}
	if len(live) == 0 {
		d := newState()
		d.dead = true
		return d, nil
	}
	if len(live) == 1 {
		return live[0].clone(), []*Term{c.Bool(true)}
	}
	// common prefix
	prefix := len(live[0].pc)
	for _, s := range live[1:] {
		n := 0
		for n < prefix && n < len(s.pc) && s.pc[n] == live[0].pc[n] {
			n++
		}
		prefix = n
	}
	rests := make([]*Term, len(live))
	for i, s := range live {
		rests[i] = c.And(s.pc[prefix:]...)
	}
	m := newState()
	m.pc = append([]*Term{}, live[0].pc[:prefix]...)
	m.assume(c, c.Or(rests...))
	pick := func(get func(s *State) (*Term, bool)) *Term {
		var vals []*Term
		var conds []*Term
		for i, s := range live {
			if t, ok := get(s); ok {
				vals = append(vals, t)
				conds = append(conds, rests[i])
			}
		}
		if len(vals) == 0 {
			return nil
		}
		r := vals[len(vals)-1]
		for i := len(vals) - 2; i >= 0; i-- {
			r = c.Ite(conds[i], vals[i], r)
		}
		return r
	}
	cellKeys := map[*ssa.Alloc]bool{}
	globKeys := map[string]bool{}
	for _, s := range live {
		for k := range s.cells {
			cellKeys[k] = true
		}
		for k := range s.globals {
			globKeys[k] = true
		}
		for k, cl := range s.clos {
			m.clos[k] = cl
		}
	}
	for k := range cellKeys {
		k := k
		if t := pick(func(s *State) (*Term, bool) { t, ok := s.cells[k]; return t, ok }); t != nil {
			m.cells[k] = t
		}
	}
	for k := range globKeys {
		k := k
		m.globals[k] = pick(func(s *State) (*Term, bool) { return v.getGlobal(s, k), true })
	}
	return m, rests
}

func (fc *FuncCtx) mergeReturns(fn *ssa.Function, rets []retInfo) (*State, []Val) {
	v := fc.v
	if len(rets) == 1 {
		return rets[0].st, rets[0].results
	}
	sts := make([]*State, len(rets))
	for i, r := range rets {
		sts[i] = r.st
	}
	m, rests := v.mergeStates(sts)
	var liveRets []retInfo
	for _, r := range rets {
		if !r.st.dead {
			liveRets = append(liveRets, r)
		}
	}
	if len(liveRets) == 0 {
		return m, nil
	}
	n := len(liveRets[0].results)
	out := make([]Val, n)
	for k := 0; k < n; k++ {
		allTerm := true
		for _, r := range liveRets {
			if r.results[k].T == nil && r.results[k].Loc == nil {
				allTerm = false
			}
		}
		if !allTerm {
			// closures / tuples: must be identical
			out[k] = liveRets[0].results[k]
			continue
		}
		t := v.asTerm(liveRets[len(liveRets)-1].st, liveRets[len(liveRets)-1].results[k])
		for i := len(liveRets) - 2; i >= 0; i-- {
			t = v.c.Ite(rests[i], v.asTerm(liveRets[i].st, liveRets[i].results[k]), t)
		}
		out[k] = Val{T: t, GoT: liveRets[0].results[k].GoT}
	}
	return m, out
}

// asTerm converts a value to a term (pointers to heap objects become references).
func (v *Verifier) asTerm(st *State, x Val) *Term {
	switch {
	case x.T != nil:
		return x.T
	case x.Loc != nil:
		if x.Loc.Ref != nil && len(x.Loc.Path) == 0 {
			return x.Loc.Ref
		}
		if x.Loc.Ref != nil && fieldOnlyPath(x.Loc.Path) {
			return v.interiorPtr(st, x.Loc)
		}
		unsupported("address of a local variable or interior pointer used as a value")
	case x.Clo != nil:
		return v.c.Const("closure_"+sanitize(x.Clo.Fn.Name()), SInt)
	}
	unsupported("value without term")
	return nil
}

// ------------------------------------------------------------ function body

func (fc *FuncCtx) execFunc(fr *Frame, st0 *State) []retInfo {
	v := fc.v
	fn := fr.fn
	if len(fn.Blocks) == 0 {
		unsupported("function %s has no body", fn)
	}
	ci := analyzeCFG(fn)
	// loop ordinals by header block index
	var hdrs []*ssa.BasicBlock
	for h := range ci.headers {
		hdrs = append(hdrs, h)
	}
	sort.Slice(hdrs, func(i, j int) bool { return hdrs[i].Index < hdrs[j].Index })
	if fn == fc.fn {
		for i, h := range hdrs {
			fc.loopOrd[h] = i + 1
		}
		fc.nextLoop = len(hdrs) + 1
	} else {
		// loops of an inlined function / closure: numbered after the function's own loops, in the order the inlined bodies are
		// reached; their invariants are part of the enclosing function's contract and speak about its variables (and ret(..))
		for _, h := range hdrs {
			if _, dup := fc.loopOrd[h]; dup {
				unsupported("loop of %s is inlined more than once into %s", fn.Name(), fc.short)
			}
			if fc.nextLoop == 0 {
				fc.nextLoop = 1
			}
			fc.loopOrd[h] = fc.nextLoop
			fc.nextLoop++
		}
	}
	in := map[*ssa.BasicBlock][]edge{}
	var rets []retInfo
	for _, b := range ci.rpo {
		var st *State
		var conds []*Term
		var preds []*ssa.BasicBlock
		if b.Index == 0 {
			st = st0
		} else {
			es := in[b]
			if len(es) == 0 {
				continue
			}
			var sts []*State
			for _, e := range es {
				if !e.st.dead {
					sts = append(sts, e.st)
					preds = append(preds, e.from)
				}
			}
			if len(sts) == 0 {
				continue
			}
			st, conds = v.mergeStates(sts)
		}
		if _, isHdr := ci.headers[b]; isHdr {
			st = fc.loopHead(fr, ci, b, st)
		}
		terminated := false
		for _, ins := range b.Instrs {
			if st.dead {
				terminated = true
				break
			}
			switch t := ins.(type) {
			case *ssa.Phi:
				var vals []*Term
				var cs []*Term
				for i, p := range preds {
					for k, bp := range b.Preds {
						if bp == p {
							vals = append(vals, v.asTerm(st, fc.valOf(fr, t.Edges[k])))
							cs = append(cs, conds[i])
							break
						}
					}
				}
				if len(vals) == 0 {
					unsupported("phi without live predecessor")
				}
				r := vals[len(vals)-1]
				for i := len(vals) - 2; i >= 0; i-- {
					r = v.c.Ite(cs[i], vals[i], r)
				}
				fr.vals[t] = Val{T: r, GoT: t.Type()}
			case *ssa.If:
				cond := v.asTerm(st, fc.valOf(fr, t.Cond))
				for k, s := range b.Succs {
					ns := st.clone()
					if k == 0 {
						ns.assume(v.c, cond)
					} else {
						ns.assume(v.c, v.c.Not(cond))
					}
					fc.flow(fr, ci, b, s, ns)
					in[s] = append(in[s], edge{b, ns})
				}
				terminated = true
			case *ssa.Jump:
				s := b.Succs[0]
				fc.flow(fr, ci, b, s, st)
				in[s] = append(in[s], edge{b, st})
				terminated = true
			case *ssa.Return:
				// a return from inside a loop leaves the loop: exit hints apply
				if fn == fc.fn {
					for h, body := range ci.loopExt {
						if body[b] {
							for _, u := range fc.spec.LoopUse[fc.loopOrd[h]] {
								if u.Where == "exit" {
									fc.applyUse(st, fc.loopEnv(fr, h, st, 0), u)
								}
							}
						}
					}
				}
				var rs []Val
				for _, r := range t.Results {
					rs = append(rs, fc.valOf(fr, r))
				}
				if fn == fc.fn && !st.dead {
					// every return statement must be reachable under the contract's assumptions (vacuity guard),
					// unless the contract lists it as unreachable
					fc.nRet++
					key := fc.returnKey(t)
					name := fmt.Sprintf("%s#canary.return[%s]", fc.short, key)
					expectDead := false
					for _, u := range fc.spec.Unreach {
						if u == key || u+"#1" == key {
							expectDead = true
						}
					}
					if expectDead {
						v.addObligation(&Obligation{Name: name + ".unreachable", Kind: "post", Func: fc.key, Pos: v.fset.Position(t.Pos()).String(),
							Assume: st.pc, Goal: v.c.Bool(false), Expect: "unsat", Src: "declared unreachable"})
					} else {
						v.addObligation(&Obligation{Name: name, Kind: "canary", Func: fc.key, Pos: v.fset.Position(t.Pos()).String(), Assume: st.pc, Expect: "sat"})
					}
				}
				rk := ""
				if fr.fn == fc.fn {
					rk = fc.returnKey(t)
				}
				rets = append(rets, retInfo{st, rs, rk})
				terminated = true
			case *ssa.Panic:
				if !(fc.spec != nil && (fc.spec.MayPanic || fc.spec.Allow["panic"])) {
					fc.safety(st, "panic", v.c.Bool(false), t.Pos(), "explicit panic reached")
				}
				terminated = true
			default:
				fc.execInstr(fr, st, ins)
			}
			if terminated {
				break
			}
		}
	}
	return rets
}

type edge struct {
	from *ssa.BasicBlock
	st   *State
}

// flow handles loop-related actions on the edge b->s: back edges assert the invariant
// (and kill the state), loop exits apply exit hints.
func (fc *FuncCtx) flow(fr *Frame, ci *cfgInfo, b, s *ssa.BasicBlock, st *State) {
	if st.dead {
		return
	}
	if ci.backEdge[[2]int{b.Index, s.Index}] {
		fc.loopBack(fr, ci, s, st)
		st.dead = true
		return
	}
	// exits: b in loop body of header h, s not in it
	for h, body := range ci.loopExt {
		if body[b] && !body[s] {
			k := fc.loopOrd[h]
			for _, u := range fc.spec.LoopUse[k] {
				if u.Where == "exit" {
					env := fc.loopEnv(fr, h, st, 0)
					fc.applyUse(st, env, u)
				}
			}
			// loop postconditions: proved on every exit edge, then available after the loop
			for i, u := range fc.spec.LoopUse[k] {
				if u.Where == "exitassert" {
					env := fc.loopEnv(fr, h, st, 0)
					t, err := env.EvalBool(u.E)
					if err != nil {
						panic(specError{fmt.Sprintf("loop %d exitassert (line %d): %v", k, u.Line, err)})
					}
					label := u.Label
					if label == "" {
						label = fmt.Sprint(i + 1)
					}
					fc.v.addObligation(&Obligation{Name: fmt.Sprintf("%s#loop%d.exit.%s", fc.short, k, label), Kind: "inv.exit", Func: fc.key,
						Assume: st.pc, Goal: t, Expect: "unsat", Src: u.Src})
					st.assume(fc.v.c, t)
				}
			}
		}
	}
}

func (fc *FuncCtx) rangeIndexCell(h *ssa.BasicBlock) *ssa.Alloc {
	for _, ins := range h.Instrs {
		if u, ok := ins.(*ssa.UnOp); ok && u.Op == token.MUL {
			if a, ok := u.X.(*ssa.Alloc); ok && a.Comment == "rangeindex" {
				return a
			}
		}
	}
	return nil
}

func (fc *FuncCtx) loopEnv(fr *Frame, h *ssa.BasicBlock, st *State, adj int64) *Env {
	env := fc.env(st, fc.entry)
	ri := fc.rangeIndexCell(h)
	env.rangeIdx = func(s *State) (*Term, bool) {
		if ri == nil {
			return nil, false
		}
		t, ok := s.cells[ri]
		return t, ok
	}
	env.idxAdj = adj
	env.headSt = fc.loopHeadSt[h]
	cur := fc.loopOrd[h]
	env.outerIdx = func(k int, s *State) (*Term, error) {
		if k == cur {
			return nil, fmt.Errorf("#i%d: loop %d is the current loop, use #i", k, k)
		}
		for hb, ord := range fc.loopOrd {
			if ord != k || hb.Parent() != h.Parent() {
				continue
			}
			// h must lie in the body of loop k: then the header of k has run its increment and the cell holds the current index
			if ci := analyzeCFG(h.Parent()); !ci.loopBody[hb][h] {
				return nil, fmt.Errorf("#i%d: loop %d does not enclose loop %d", k, k, cur)
			}
			ri := fc.rangeIndexCell(hb)
			if ri == nil {
				return nil, fmt.Errorf("#i%d: loop %d is not a range loop", k, k)
			}
			t, ok := s.cells[ri]
			if !ok {
				return nil, fmt.Errorf("#i%d: no range index available", k)
			}
			return t, nil
		}
		return nil, fmt.Errorf("#i%d: no such loop in this function", k)
	}
	return env
}

func (fc *FuncCtx) loopHead(fr *Frame, ci *cfgInfo, h *ssa.BasicBlock, st *State) *State {
	v := fc.v
	c := v.c
	k := fc.loopOrd[h]
	invs := fc.spec.LoopInv[k]
	if len(invs) == 0 {
		// a loop the contract says nothing about (typically one added after the contract was written): cut it with the trivial
		// invariant - everything the loop may write is forgotten. Sound; obligations that needed more fail instead of the run
		// stopping with an engine error.
		v.notes[fmt.Sprintf("%s: loop %d (%s) has no invariant in the contract: cut with the trivial invariant (its write set is forgotten)", fc.key, k, v.fset.Position(h.Instrs[0].Pos()))] = true
	}
	for _, u := range fc.spec.LoopUse[k] {
		if u.Where == "init" {
			fc.applyUse(st, fc.loopEnv(fr, h, st, 1), u)
		}
	}
	env := fc.loopEnv(fr, h, st, 1)
	for i, inv := range invs {
		t, err := env.EvalBool(inv.E)
		if err != nil {
			panic(specError{fmt.Sprintf("loop %d invariant (line %d): %v", k, inv.Line, err)})
		}
		label := inv.Label
		if label == "" {
			label = fmt.Sprint(i + 1)
		}
		v.addObligation(&Obligation{Name: fmt.Sprintf("%s#loop%d.init.%s", fc.short, k, label), Kind: "inv.init", Func: fc.key,
			Assume: st.pc, Goal: t, Expect: "unsat", Src: inv.Src})
	}
	// havoc
	ws := newWriteSet()
	var blocks []*ssa.BasicBlock
	for b := range ci.loopBody[h] {
		blocks = append(blocks, b)
	}
	sort.Slice(blocks, func(i, j int) bool { return blocks[i].Index < blocks[j].Index })
	fc.scanWrites(blocks, fr, ws, 0)
	ns := st.clone()
	tag := fmt.Sprintf("%s@L%d", fc.short, k)
	var cells []*ssa.Alloc
	for a := range ws.cells {
		cells = append(cells, a)
	}
	sort.Slice(cells, func(i, j int) bool { return cells[i].Pos() < cells[j].Pos() })
	for _, a := range cells {
		if _, live := ns.cells[a]; !live {
			continue // allocated inside the loop: re-initialised there
		}
		gt := a.Type().(*types.Pointer).Elem()
		name := a.Comment
		if name == "" {
			name = a.Name()
		}
		t := c.Fresh(tag+"."+name, ns.cells[a].Sort)
		ns.cells[a] = t
		v.assumeTyped(ns, t, gt, nil)
	}
	var gks []string
	for g := range ws.globals {
		gks = append(gks, g)
	}
	sort.Strings(gks)
	// automatic heap frame invariant for heaps written in the loop: objects that are not modifies targets of
	// the function keep their entry value (checked on entry and at every back edge like any invariant)
	for _, g := range gks {
		// a function that gives up its frame obligations (`allow frame`) gets no automatic loop frame either: the loop may
		// write objects the contract cannot list (everything it needs must then be in its explicit invariants)
		if strings.HasPrefix(g, "H_") && !fc.spec.Allow["frame"] {
			fc.loopFrames[h] = append(fc.loopFrames[h], g)
			v.addObligation(&Obligation{Name: fmt.Sprintf("%s#loop%d.init.frame_%s", fc.short, k, g), Kind: "inv.init", Func: fc.key,
				Assume: st.pc, Goal: fc.heapFrameTerm(st, g), Expect: "unsat", Src: "objects of " + g + " outside the modifies clause are unchanged"})
		}
	}
	for _, g := range gks {
		old := v.getGlobal(ns, g)
		t := c.Fresh(tag+"."+g, v.globalSort(g))
		ns.globals[g] = t
		if g == "$alloc" {
			ns.assume(c, c.Cmp(">=", t, old))
		}
	}
	for _, g := range fc.loopFrames[h] {
		ns.assume(c, fc.heapFrameTerm(ns, g))
	}
	fc.loopHeadSt[h] = ns.clone()
	env = fc.loopEnv(fr, h, ns, 1)
	for _, inv := range invs {
		t, err := env.EvalBool(inv.E)
		if err != nil {
			panic(specError{fmt.Sprintf("loop %d invariant (line %d): %v", k, inv.Line, err)})
		}
		ns.assume(c, t)
	}
	for _, u := range fc.spec.LoopUse[k] {
		if u.Where == "head" {
			fc.applyUse(ns, fc.loopEnv(fr, h, ns, 1), u)
		}
	}
	v.addObligation(&Obligation{Name: fmt.Sprintf("%s#canary.loop%d", fc.short, k), Kind: "canary", Func: fc.key, Assume: ns.pc, Expect: "sat"})
	return ns
}

func (fc *FuncCtx) loopBack(fr *Frame, ci *cfgInfo, h *ssa.BasicBlock, st *State) {
	v := fc.v
	k := fc.loopOrd[h]
	for _, u := range fc.spec.LoopUse[k] {
		if u.Where == "back" {
			fc.applyUse(st, fc.loopEnv(fr, h, st, 1), u)
		}
	}
	for _, g := range fc.loopFrames[h] {
		v.addObligation(&Obligation{Name: fmt.Sprintf("%s#loop%d.preserve.frame_%s", fc.short, k, g), Kind: "inv.preserve", Func: fc.key,
			Assume: st.pc, Goal: fc.heapFrameTerm(st, g), Expect: "unsat", Src: "objects of " + g + " outside the modifies clause are unchanged"})
	}
	env := fc.loopEnv(fr, h, st, 1)
	for i, inv := range fc.spec.LoopInv[k] {
		t, err := env.EvalBool(inv.E)
		if err != nil {
			panic(specError{fmt.Sprintf("loop %d invariant (line %d): %v", k, inv.Line, err)})
		}
		label := inv.Label
		if label == "" {
			label = fmt.Sprint(i + 1)
		}
		v.addObligation(&Obligation{Name: fmt.Sprintf("%s#loop%d.preserve.%s", fc.short, k, label), Kind: "inv.preserve", Func: fc.key,
			Assume: st.pc, Goal: t, Expect: "unsat", Src: inv.Src})
	}
}

// ------------------------------------------------------------ write-set scan (for loop havoc)

type writeSet struct {
	cells   map[*ssa.Alloc]bool
	globals map[string]bool
}

func newWriteSet() *writeSet {
	return &writeSet{cells: map[*ssa.Alloc]bool{}, globals: map[string]bool{}}
}

// rootOf follows address computations back to their root.
func (fc *FuncCtx) rootOf(x ssa.Value, fr *Frame) (cell *ssa.Alloc, heapKey string) {
	for {
		switch t := x.(type) {
		case *ssa.Alloc:
			if fc.isCell(t) {
				return t, ""
			}
			return nil, fc.v.heapKeyFor(t.Type().(*types.Pointer).Elem())
		case *ssa.FieldAddr:
			x = t.X
		case *ssa.IndexAddr:
			// slice element: root is where the slice value came from
			if _, isSlice := t.X.Type().Underlying().(*types.Slice); isSlice {
				if u, ok := t.X.(*ssa.UnOp); ok && u.Op == token.MUL {
					x = u.X
					continue
				}
				return nil, ""
			}
			x = t.X
		case *ssa.FreeVar:
			if fr != nil {
				if b, ok := fr.free[t]; ok && b.Loc != nil && b.Loc.Cell != nil {
					return b.Loc.Cell, ""
				}
			}
			return nil, ""
		default:
			if p := pointee(x.Type()); p != nil {
				return nil, fc.v.heapKeyFor(p)
			}
			return nil, ""
		}
	}
}

func (fc *FuncCtx) scanWrites(blocks []*ssa.BasicBlock, fr *Frame, ws *writeSet, depth int) {
	v := fc.v
	if depth > 8 {
		unsupported("write-set scan: call depth exceeded")
	}
	for _, b := range blocks {
		for _, ins := range b.Instrs {
			switch t := ins.(type) {
			case *ssa.Store:
				cell, hk := fc.rootOf(t.Addr, fr)
				if cell != nil {
					ws.cells[cell] = true
				} else if hk != "" {
					ws.globals[hk] = true
				} else {
					unsupported("write-set scan: cannot resolve store target %s", t)
				}
			case *ssa.Alloc:
				if !fc.isCell(t) {
					ws.globals[v.heapKeyFor(t.Type().(*types.Pointer).Elem())] = true
					ws.globals["$alloc"] = true
				}
			case *ssa.MapUpdate:
				if u, ok := t.Map.(*ssa.UnOp); ok {
					cell, hk := fc.rootOf(u.X, fr)
					if cell != nil {
						ws.cells[cell] = true
					} else if hk != "" {
						ws.globals[hk] = true
					}
				}
			case ssa.CallInstruction:
				fc.scanCall(t, fr, ws, depth)
			}
		}
	}
}

func (fc *FuncCtx) scanCall(ci ssa.CallInstruction, fr *Frame, ws *writeSet, depth int) {
	v := fc.v
	if d, isDefer := ci.(*ssa.Defer); isDefer {
		// deferred closures that write captured variables are executed at the function's returns (see instr.go): their
		// writes belong to the write set; every other deferred call is not executed by the model
		if !deferredClosureWrites(d) {
			return
		}
	}
	if _, isGo := ci.(*ssa.Go); isGo {
		unsupported("go statement")
	}
	com := ci.Common()
	if b, ok := com.Value.(*ssa.Builtin); ok {
		if b.Name() == "copy" {
			if u, ok := com.Args[0].(*ssa.UnOp); ok {
				cell, hk := fc.rootOf(u.X, fr)
				if cell != nil {
					ws.cells[cell] = true
				} else if hk != "" {
					ws.globals[hk] = true
				}
			}
		}
		return
	}
	key, callee, clo := fc.resolveCallee(com, fr, nil)
	if clo != nil {
		// inlined closure: bind free vars statically
		nfr := &Frame{fn: clo.Fn, vals: map[ssa.Value]Val{}, free: map[*ssa.FreeVar]Val{}, fc: fc}
		for i, fv := range clo.Fn.FreeVars {
			if i < len(clo.Bindings) {
				nfr.free[fv] = clo.Bindings[i]
			}
		}
		fc.scanWrites(clo.Fn.Blocks, nfr, ws, depth+1)
		return
	}
	spec := v.specFor(key)
	if spec != nil && spec.Model != "" {
		callee = fc.modelFunc(key, spec, len(fc.allArgs(com)))
	}
	if spec != nil && (spec.Inline || spec.Model != "") && callee != nil && len(callee.Blocks) > 0 {
		nfr := &Frame{fn: callee, vals: map[ssa.Value]Val{}, free: map[*ssa.FreeVar]Val{}, fc: fc, parent: fr}
		// closures passed as arguments are called by the inlined body: their writes to captured cells belong to the write set
		args := fc.allArgs(com)
		for i, p := range callee.Params {
			if i >= len(args) {
				break
			}
			if mc, ok := args[i].(*ssa.MakeClosure); ok {
				cl := &Closure{Fn: mc.Fn.(*ssa.Function)}
				for _, b := range mc.Bindings {
					cl.Bindings = append(cl.Bindings, fc.valOfStatic(fr, b))
				}
				nfr.vals[p] = Val{Clo: cl}
			} else if pv, ok := fr.vals[args[i]]; ok && pv.Clo != nil {
				nfr.vals[p] = pv
			}
		}
		fc.scanWrites(callee.Blocks, nfr, ws, depth+1)
		// map-typed parameters updated by the inlined body: the caller's variable the argument was loaded from is written
		for i := range mapParamsUpdated(callee) {
			if i >= len(args) {
				continue
			}
			if u, ok := args[i].(*ssa.UnOp); ok && u.Op == token.MUL {
				cell, hk := fc.rootOf(u.X, fr)
				if cell != nil {
					ws.cells[cell] = true
				} else if hk != "" {
					ws.globals[hk] = true
				}
			}
		}
		return
	}
	if spec == nil && clo == nil && !com.IsInvoke() {
		spec = fc.dynCallSpec(key)
	}
	if spec == nil && clo == nil && !com.IsInvoke() && fr.fn != fc.fn && strings.HasPrefix(key, "dynamic:") {
		// a function value called inside an inlined body that could not be resolved to a closure: it may be a closure of the
		// verified function writing its variables
		unsupported("write-set scan: call of an unresolved function value %s inside inlined %s", key, fr.fn.Name())
	}
	if spec != nil && !spec.Opaque {
		if spec.Pure || spec.Def != nil {
			return
		}
		names, tys := fc.calleeParams(com, spec)
		for _, m := range spec.Modifies {
			switch {
			case m.Kind == "id":
				if _, ok := v.worlds[m.Name]; ok {
					ws.globals[m.Name] = true
				} else {
					unsupported("modifies %s of %s: not a world variable", m.Name, key)
				}
			case m.Kind == "un" && m.Name == "*" && m.Args[0].Kind == "id":
				found := false
				for i, n := range names {
					if n == m.Args[0].Name {
						if p := pointee(tys[i]); p != nil {
							ws.globals[v.heapKeyFor(p)] = true
							found = true
						}
					}
				}
				if m.Args[0].Name == "result" {
					if res := com.Signature().Results(); res.Len() > 0 {
						if p := pointee(res.At(0).Type()); p != nil {
							ws.globals[v.heapKeyFor(p)] = true
							found = true
						}
					}
				}
				if !found {
					unsupported("modifies *%s of %s: no such pointer parameter", m.Args[0].Name, key)
				}
			case m.Kind == "un" && m.Name == "*" && m.Args[0].Kind == "call" && len(m.Args[0].Args) == 2 &&
				(m.Args[0].Name == "cast" || m.Args[0].Name == "dyn" || m.Args[0].Name == "unbox"):
				// *cast(x, *T): the object behind an interface value
				tn := typeExprName(m.Args[0].Args[1])
				_, gt, err := v.resolveType(tn)
				if err != nil || gt == nil || pointee(gt) == nil {
					unsupported("modifies %s of %s: cannot resolve pointer type %q", m, key, tn)
				}
				ws.globals[v.heapKeyFor(pointee(gt))] = true
			case m.Kind == "un" && m.Name == "*" && m.Args[0].Kind == "field" && specPathType(m.Args[0], names, tys) != nil && pointee(specPathType(m.Args[0], names, tys)) != nil:
				// *p.f.g: the object a field path from a parameter points to
				ws.globals[v.heapKeyFor(pointee(specPathType(m.Args[0], names, tys)))] = true
			case m.Kind == "call" && m.Name == "elems":
				for i, n := range names {
					if n == m.Args[0].Name {
						args := fc.allArgs(com)
						if u, ok := args[i].(*ssa.UnOp); ok {
							cell, hk := fc.rootOf(u.X, fr)
							if cell != nil {
								ws.cells[cell] = true
							} else if hk != "" {
								ws.globals[hk] = true
							}
						}
					}
				}
			case v.modifiesHeapKey(m) != "":
				ws.globals[v.modifiesHeapKey(m)] = true
			default:
				unsupported("modifies clause %s of %s not understood", m, key)
			}
		}
		if spec.Fresh || ensuresMentionFresh(spec) {
			ws.globals["$alloc"] = true
		}
		return
	}
	// opaque
	for w := range v.worlds {
		ws.globals[w] = true
	}
	for _, a := range fc.allArgs(com) {
		for _, hk := range fc.reachableHeaps(argStaticType(a)) {
			ws.globals[hk] = true
		}
		// address of a cell passed to an opaque call: the cell is havoced
		if cell, _ := fc.rootOf(a, fr); cell != nil && pointee(a.Type()) != nil {
			ws.cells[cell] = true
		}
	}
	ws.globals["$alloc"] = true
}

func (fc *FuncCtx) allArgs(com *ssa.CallCommon) []ssa.Value {
	if com.IsInvoke() {
		return append([]ssa.Value{com.Value}, com.Args...)
	}
	return com.Args
}

// reachableHeaps lists heap keys of tracked pointee types reachable from a value of type t.
func (fc *FuncCtx) reachableHeaps(t types.Type) []string {
	v := fc.v
	seen := map[string]bool{}
	var out []string
	var walk func(t types.Type, depth int)
	walk = func(t types.Type, depth int) {
		k := typeKey(t)
		if seen[k] || depth > 6 {
			return
		}
		seen[k] = true
		if _, abs := v.tm.abstract[k]; abs {
			return
		}
		switch tt := t.Underlying().(type) {
		case *types.Pointer:
			if _, abs := v.tm.abstract[typeKey(tt.Elem())]; abs {
				out = append(out, v.heapKeyFor(tt.Elem()))
				return
			}
			out = append(out, v.heapKeyFor(tt.Elem()))
			walk(tt.Elem(), depth+1)
		case *types.Struct:
			for i := 0; i < tt.NumFields(); i++ {
				walk(tt.Field(i).Type(), depth+1)
			}
		case *types.Slice:
			walk(tt.Elem(), depth+1)
		case *types.Array:
			walk(tt.Elem(), depth+1)
		case *types.Map:
			walk(tt.Elem(), depth+1)
		}
	}
	walk(t, 0)
	return out
}

// ------------------------------------------------------------ cells vs heap objects

// cellSort is the sort of the value held by a local variable: the sort of its Go type, except for variables
// listed in a `rawslice` clause (their type is mapped to an abstract list sort, but the code builds the value
// element by element, so it need not satisfy the representation invariant the abstraction assumes).
func (fc *FuncCtx) cellSort(a *ssa.Alloc) *Sort {
	elem := a.Type().(*types.Pointer).Elem()
	if fc.spec != nil && fc.spec.RawSlice[a.Comment] && a.Parent() == fc.fn {
		if sl, ok := elem.Underlying().(*types.Slice); ok {
			if at, abs := fc.v.tm.abstract[typeKey(elem)]; abs && at.SeqLen != "" {
				return fc.v.tm.RawSliceSort(sl)
			}
		}
		unsupported("rawslice %s: not a local variable of an abstract list type with a sequence view", a.Comment)
	}
	return fc.v.tm.SortOf(elem)
}

// absToRaw converts a value of an abstract list sort to the concrete slice with the same sequence view.
func (fc *FuncCtx) absToRaw(st *State, x *Term, gt types.Type, raw *Sort) *Term {
	v := fc.v
	c := v.c
	at, ok := v.tm.abstract[typeKey(gt)]
	if !ok || at.SeqLen == "" || at.Sort != x.Sort {
		unsupported("cannot convert a value of sort %s (%s) to a concrete slice", x.Sort.Name, gt)
	}
	r := c.Fresh("raw_"+sanitize(at.Sort.Name), raw)
	n := c.App(at.SeqLen, SInt, x)
	st.assume(c, c.Cmp(">=", n, c.Int(0)))
	st.assume(c, c.Eq(c.FieldOf(r, 1), n))
	i := c.BoundVar("k", SInt)
	es := raw.Fields[0].Sort.Elem
	st.assume(c, c.Quant(true, []*Term{i}, c.Implies(c.And(c.Cmp("<=", c.Int(0), i), c.Cmp("<", i, n)),
		c.Eq(c.Select(c.FieldOf(r, 0), i), c.App(at.SeqAt, es, x, i)))))
	return r
}

// specFor returns the contract used for calls to key; `sameas` contracts (interface methods whose contract is
// that of the implementation under verification) are resolved here.
func (v *Verifier) specFor(key string) *FuncSpec {
	spec := v.specs[key]
	if spec == nil || spec.SameAs == "" {
		return spec
	}
	if r, ok := v.sameAsCache[key]; ok {
		return r
	}
	target := v.specs[spec.SameAs]
	if target == nil {
		unsupported("%s: sameas %s: no such contract", key, spec.SameAs)
	}
	if target.SameAs != "" || target.Inline || target.Opaque {
		unsupported("%s: sameas %s: target must be a plain contract", key, spec.SameAs)
	}
	tf, err := v.lookupFunc(spec.SameAs)
	if err != nil {
		unsupported("%s: sameas: %v", key, err)
	}
	cp := *target
	cp.Key = key
	cp.SameAs = ""
	cp.Trusted = false
	cp.Lib = spec.Lib
	names := target.ParamNames
	if len(names) == 0 {
		names, _ = sigParams(tf.Type().(*types.Signature))
	}
	cp.ParamNames = names
	if v.sameAsCache == nil {
		v.sameAsCache = map[string]*FuncSpec{}
	}
	v.sameAsCache[key] = &cp
	v.sameAsUsed[key] = spec.SameAs
	v.notes[fmt.Sprintf("%s: calls use the contract of %s (dynamic dispatch is assumed to resolve to it)", key, spec.SameAs)] = true
	return &cp
}

func (fc *FuncCtx) isCell(a *ssa.Alloc) bool {
	if r, ok := fc.cellClass[a]; ok {
		return r
	}
	fc.cellClass[a] = true // optimistic for recursion
	ok := fc.onlyLocalUses(a, 0)
	fc.cellClass[a] = ok
	return ok
}

func (fc *FuncCtx) onlyLocalUses(x ssa.Value, depth int) bool {
	refs := x.Referrers()
	if refs == nil {
		return true
	}
	for _, r := range *refs {
		switch t := r.(type) {
		case *ssa.UnOp:
			if t.Op != token.MUL {
				return false
			}
		case *ssa.Store:
			if t.Val == x {
				return false // address stored somewhere
			}
		case *ssa.FieldAddr:
			if !fc.onlyLocalUses(t, depth+1) {
				return false
			}
		case *ssa.IndexAddr:
			if !fc.onlyLocalUses(t, depth+1) {
				return false
			}
		case *ssa.Slice:
			// slicing an array allocation: value semantics copy
		case *ssa.MakeClosure:
			// captured by a closure: stays a cell if the closure is only called locally (checked at call time)
			idx := -1
			for i, b := range t.Bindings {
				if b == x {
					idx = i
				}
			}
			if idx < 0 {
				return false
			}
			fn := t.Fn.(*ssa.Function)
			if idx < len(fn.FreeVars) && !fc.onlyLocalUses(fn.FreeVars[idx], depth+1) {
				return false
			}
		case *ssa.DebugRef:
		default:
			return false
		}
	}
	return true
}

// ------------------------------------------------------------ values

func (fc *FuncCtx) valOf(fr *Frame, x ssa.Value) Val {
	v := fc.v
	switch t := x.(type) {
	case *ssa.Const:
		return Val{T: v.constTerm(t), GoT: t.Type()}
	case *ssa.FreeVar:
		if b, ok := fr.free[t]; ok {
			return b
		}
		unsupported("unbound free variable %s", t.Name())
	case *ssa.Function:
		return Val{Clo: &Closure{Fn: t}, GoT: t.Type()}
	case *ssa.Global:
		return Val{Loc: &Loc{Root: v.globalValue(t), Sort: v.tm.SortOf(t.Type().(*types.Pointer).Elem()), GoT: t.Type().(*types.Pointer).Elem()}, GoT: t.Type()}
	case *ssa.Builtin:
		unsupported("builtin %s used as a value", t.Name())
	}
	if r, ok := fr.vals[x]; ok {
		return r
	}
	unsupported("value %s (%T) not computed (in %s)", x.Name(), x, fr.fn.Name())
	return Val{}
}

func (v *Verifier) globalValue(g *ssa.Global) *Term {
	so := v.tm.SortOf(g.Type().(*types.Pointer).Elem())
	name := "glob_" + sanitize(g.Pkg.Pkg.Name()+"."+g.Name())
	v.notes["package-level variable "+g.Pkg.Pkg.Path()+"."+g.Name()+" treated as an immutable constant"] = true
	return v.c.Const(name, so)
}

// floatLit: floating-point numbers are an uninterpreted sort; a literal is a named constant, so that two occurrences of the
// same literal (in the code or, as floatlit("..."), in a contract) denote the same value. Nothing else is known about it.
func (v *Verifier) floatLit(exact string) *Term {
	return v.c.Const("floatlit_"+sanitize(exact), v.c.Sorts.Unint("Float"))
}

func (v *Verifier) constTerm(k *ssa.Const) *Term {
	so := v.tm.SortOf(k.Type())
	if k.Value == nil {
		return v.tm.ZeroOf(so)
	}
	switch k.Value.Kind() {
	case constant.Bool:
		return v.c.Bool(constant.BoolVal(k.Value))
	case constant.Int:
		if so != SInt {
			break
		}
		if bi, ok := constant.Val(k.Value).(*big.Int); ok {
			return v.c.BigInt(bi)
		}
		if i, ok := constant.Val(k.Value).(int64); ok {
			return v.c.Int(i)
		}
	case constant.String:
		if so == v.tm.SStr {
			return v.strLit(constant.StringVal(k.Value))
		}
	case constant.Float:
		if so == SInt {
			if i, ok := constant.Int64Val(constant.ToInt(k.Value)); ok {
				return v.c.Int(i)
			}
		}
		return v.floatLit(k.Value.ExactString())
	}
	if so.Name == "Float" && (k.Value.Kind() == constant.Int || k.Value.Kind() == constant.Float) {
		return v.floatLit(k.Value.ExactString())
	}
	unsupported("constant %s of type %s", k, k.Type())
	return nil
}

func (fc *FuncCtx) safety(st *State, kind string, goal *Term, pos token.Pos, note string) {
	v := fc.v
	if goal.IsTrue() {
		return
	}
	if fc.spec != nil && fc.spec.Allow[kind] {
		return
	}
	fc.safeCount[kind]++
	name := fmt.Sprintf("%s#safe.%s%d", fc.short, kind, fc.safeCount[kind])
	var wenv *Env
	if _, isKnown := v.known[name]; isKnown && fc.entry != nil {
		// the witness of a known finding on a safety obligation sees the caller's variables at the point of the check
		wenv = fc.env(st.clone(), fc.entry)
	}
	v.addObligation(&Obligation{Name: name, Kind: "safe", Func: fc.key,
		Pos: v.fset.Position(pos).String(), Assume: st.pc, Goal: goal, Expect: "unsat", Note: note, wenv: wenv})
	// after the check, execution continues only where the condition holds
	st.assume(v.c, goal)
}

// assumeGlobals adds the declared facts about package-level variables of dependencies
// (`global PATH deref N`: non-nil pre-existing pointer whose pointee has value N).
func (v *Verifier) assumeGlobals(st *State, alloc0 *Term) {
	c := v.c
	var names []string
	for k := range v.globalsSpec {
		names = append(names, k)
	}
	sort.Strings(names)
	for _, path := range names {
		toks := v.globalsSpec[path]
		dot := strings.LastIndex(path, ".")
		pkg := v.typePkgs[path[:dot]]
		if pkg == nil {
			continue
		}
		obj, ok := pkg.Scope().Lookup(path[dot+1:]).(*types.Var)
		if !ok {
			continue
		}
		g := c.Const("glob_"+sanitize(pkg.Name()+"."+obj.Name()), v.tm.SortOf(obj.Type()))
		if len(toks) == 1 && toks[0] == "nonnil" {
			// package-level value initialised once to a non-nil pointer / interface (e.g. a registered sentinel error)
			st.assume(c, c.Not(c.Eq(g, c.Int(0))))
			continue
		}
		if len(toks) == 2 && toks[0] == "deref" {
			el := pointee(obj.Type())
			if el == nil {
				continue
			}
			n, ok := new(big.Int).SetString(toks[1], 10)
			if !ok {
				continue
			}
			st.assume(c, c.Cmp(">", g, c.Int(0)))
			st.assume(c, c.Cmp("<", g, alloc0))
			st.assume(c, c.Eq(c.Select(v.getGlobal(st, v.heapKeyFor(el)), g), c.BigInt(n)))
		}
	}
}

// returnKey identifies a return statement by its source text and its rank among the return statements of the function with
// the same text (in source order), e.g. "return nil#2": stable under edits elsewhere in the function.
func (fc *FuncCtx) returnKey(r *ssa.Return) string {
	v := fc.v
	text := func(p token.Pos) string {
		pos := v.fset.Position(p)
		lines, ok := v.srcLines[pos.Filename]
		if !ok {
			if raw, err := os.ReadFile(pos.Filename); err == nil {
				lines = strings.Split(string(raw), "\n")
			}
			v.srcLines[pos.Filename] = lines
		}
		if pos.Line >= 1 && pos.Line <= len(lines) {
			return strings.TrimSpace(lines[pos.Line-1])
		}
		return fmt.Sprintf("line %d", pos.Line)
	}
	mine := text(r.Pos())
	rank := 1
	for _, b := range fc.fn.Blocks {
		for _, ins := range b.Instrs {
			if o, ok := ins.(*ssa.Return); ok && o != r && o.Pos() < r.Pos() && text(o.Pos()) == mine {
				rank++
			}
		}
	}
	return fmt.Sprintf("%s#%d", mine, rank)
}

// specPathType gives the Go type of a field path p.f.g rooted at a callee parameter (auto-deref through pointers and embedded
// fields, as in spec expressions); nil when the path cannot be resolved statically.
func specPathType(e *Expr, names []string, tys []types.Type) types.Type {
	switch e.Kind {
	case "id":
		for i, n := range names {
			if n == e.Name {
				return tys[i]
			}
		}
		return nil
	case "field":
		bt := specPathType(e.Args[0], names, tys)
		if bt == nil {
			return nil
		}
		obj, _, _ := types.LookupFieldOrMethod(bt, true, nil, e.Name)
		if obj == nil {
			// unexported fields need the package of the type
			if n, ok := derefNamed(bt); ok && n.Obj().Pkg() != nil {
				obj, _, _ = types.LookupFieldOrMethod(bt, true, n.Obj().Pkg(), e.Name)
			}
		}
		if f, ok := obj.(*types.Var); ok && f.IsField() {
			return f.Type()
		}
		return nil
	}
	return nil
}

func derefNamed(t types.Type) (*types.Named, bool) {
	if p, ok := t.Underlying().(*types.Pointer); ok {
		t = p.Elem()
	}
	n, ok := t.(*types.Named)
	return n, ok
}

// checkWired decides the `wired` clauses of a `structural` contract over the SSA of the function: the named argument of the named call
// is - possibly boxed into an interface - the address of a local variable (or the variable's value) that is assigned exactly once,
// from the result of a call of the named source function. No solver is involved: the obligation's goal is the constant outcome.
func (v *Verifier) checkWired(fc *FuncCtx) {
	c := v.c
	calleeName := func(com *ssa.CallCommon) string {
		if com.IsInvoke() {
			return com.Method.FullName()
		}
		if f, ok := com.Value.(*ssa.Function); ok {
			if f.Origin() != nil {
				return f.Origin().String()
			}
			return f.String()
		}
		return ""
	}
	strip := func(x ssa.Value) ssa.Value {
		for {
			switch t := x.(type) {
			case *ssa.MakeInterface:
				x = t.X
			case *ssa.ChangeInterface:
				x = t.X
			case *ssa.ChangeType:
				x = t.X
			default:
				return x
			}
		}
	}
	for _, w := range fc.spec.Wired {
		ok, why := false, "no such call"
		n := 0
		for _, b := range fc.fn.Blocks {
			for _, ins := range b.Instrs {
				call, isCall := ins.(ssa.CallInstruction)
				if !isCall || !strings.HasSuffix(calleeName(call.Common()), w.Callee) {
					continue
				}
				n++
				if n != w.Nth {
					continue
				}
				args := call.Common().Args
				if w.Arg < 0 || w.Arg >= len(args) {
					why = "no such argument"
					continue
				}
				x := strip(args[w.Arg])
				if strings.HasPrefix(w.Source, "global:") || strings.HasPrefix(w.Source, "func:") {
					// SOURCE `global:<Name>`: the argument is (the value of) the package-level variable of that name;
					// SOURCE `func:<Name>`: the argument is the function of that name (a function value, possibly converted)
					want := w.Source[strings.Index(w.Source, ":")+1:]
					y := x
					if u, isLoad := y.(*ssa.UnOp); isLoad && u.Op == token.MUL {
						y = u.X
					}
					got := ""
					switch t := y.(type) {
					case *ssa.Global:
						if strings.HasPrefix(w.Source, "global:") {
							got = t.Name()
						}
					case *ssa.Function:
						if strings.HasPrefix(w.Source, "func:") {
							got = t.Name()
						}
					case *ssa.MakeClosure:
						if f, isFn := t.Fn.(*ssa.Function); isFn && strings.HasPrefix(w.Source, "func:") {
							got = f.Name()
						}
					}
					if got == want {
						ok, why = true, fmt.Sprintf("argument %d is %s", w.Arg, y)
					} else {
						why = fmt.Sprintf("argument %d is %s, not %s", w.Arg, y, w.Source)
					}
					continue
				}
				if strings.HasPrefix(w.Source, "key:") {
					// SOURCE `key:<string>`: the argument is a map lookup m[K] whose key is that string constant
					// (keys[distrtypes.StoreKey]: which store a keeper is constructed over)
					if ex, isEx := x.(*ssa.Extract); isEx {
						x = ex.Tuple
					}
					lk, isLookup := x.(*ssa.Lookup)
					if !isLookup {
						why = fmt.Sprintf("the argument is not a map lookup: %s", x)
						continue
					}
					kc, isConst := lk.Index.(*ssa.Const)
					if !isConst || kc.Value == nil || kc.Value.Kind() != constant.String {
						why = fmt.Sprintf("the lookup key is not a string constant: %s", lk.Index)
						continue
					}
					if got := constant.StringVal(kc.Value); got != strings.TrimPrefix(w.Source, "key:") {
						why = fmt.Sprintf("the lookup key is %q", got)
						continue
					}
					ok, why = true, fmt.Sprintf("argument %d is %s", w.Arg, lk)
					continue
				}
				if u, isLoad := x.(*ssa.UnOp); isLoad && u.Op == token.MUL {
					x = u.X // the value of a variable: trace the variable
				}
				a, isAlloc := x.(*ssa.Alloc)
				if !isAlloc {
					why = fmt.Sprintf("the argument is not a local variable (or its address): %s", x)
					continue
				}
				stores, src := 0, ""
				if refs := a.Referrers(); refs != nil {
					for _, r := range *refs {
						if s, isStore := r.(*ssa.Store); isStore && s.Addr == a {
							stores++
							val := strip(s.Val)
							if ex, isEx := val.(*ssa.Extract); isEx {
								val = ex.Tuple
							}
							if sc, isSrc := val.(*ssa.Call); isSrc {
								src = calleeName(sc.Common())
							} else {
								src = val.String()
							}
						}
					}
				}
				switch {
				case stores != 1:
					why = fmt.Sprintf("variable %s is assigned %d times", a.Comment, stores)
				case !strings.HasSuffix(src, w.Source):
					why = fmt.Sprintf("variable %s is assigned from %s", a.Comment, src)
				default:
					ok, why = true, fmt.Sprintf("argument %d is variable %s, assigned once from %s", w.Arg, a.Comment, src)
				}
			}
		}
		goal := c.Bool(true)
		if !ok {
			goal = c.Bool(false)
		}
		v.addObligation(&Obligation{Name: fc.short + "#wired." + w.Label, Kind: "structural", Func: fc.key, Goal: goal, Expect: "unsat",
			Src: fmt.Sprintf("wired %s: %s#%d arg %d from %s", w.Label, w.Callee, w.Nth, w.Arg, w.Source), Note: "structural (SSA data flow, no solver reasoning): " + why})
	}
	v.notes[fc.key+": structural contract - the function is not executed symbolically; only the wired clauses are checked over its SSA"] = true
}

// writesFreeVar: the function literal stores into the captured variable itself (not through a pointer it holds).
func (fc *FuncCtx) writesFreeVar(fv *ssa.FreeVar) bool {
	refs := fv.Referrers()
	if refs == nil {
		return false
	}
	for _, r := range *refs {
		if s, ok := r.(*ssa.Store); ok && s.Addr == fv {
			return true
		}
	}
	return false
}
