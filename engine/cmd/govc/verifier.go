package main

// Program loading and the registry of specs.

import (
	"fmt"
	"go/token"
	"go/types"
	"os"
	"path/filepath"
	"sort"
	"strings"

	"golang.org/x/tools/go/packages"
	"golang.org/x/tools/go/ssa"
	"golang.org/x/tools/go/ssa/ssautil"
)

type Obligation struct {
	Name   string
	Kind   string // pre, post, inv.init, inv.preserve, safe, call, lemma, frame, canary, cover
	Func   string
	Pos    string
	Assume []*Term
	Goal   *Term  // nil for sat-queries (canary/cover)
	Expect string // "unsat" (proved) for proof obligations, "sat" for covers/canaries
	Note   string
	Src    string
	wenv   *Env // environment in which a known-finding witness predicate is evaluated
}

type Verifier struct {
	skipLabels, onlyLabels []string
	agree                  bool
	c                      *TermCtx
	tm                     *TypeMap
	fset                   *token.FileSet
	prog                   *ssa.Program
	pkgs                   []*packages.Package
	// package path -> types.Package
	typePkgs map[string]*types.Package
	ssaPkgs  map[string]*ssa.Package

	specs       map[string]*FuncSpec
	ghosts      map[string]*ghostDef
	specFuncs   map[string]*specFuncDef
	lemmas      map[string]*Lemma
	lemmaOrder  []string
	worlds      map[string]*Sort
	specConsts  map[string]*Sort
	aliases     map[string]types.Type
	pureAs      map[string]*pureFunc
	pureByKey   map[string]*pureFunc
	globalSorts map[string]*Sort
	globalsSpec map[string][]string // go global var -> spec tokens
	axioms      []Clause
	strLits     map[string]string

	obligations []*Obligation
	// assumption scan
	opaqueCalls    map[string]map[string]int // function -> callee key -> count
	usedLibSpecs   map[string]bool
	inlined        map[string]bool
	notes          map[string]bool
	engineErrors   []string
	funcsDone      []string
	typeTags       map[string]int64
	tagTypes       map[int64]types.Type        // tag -> Go type
	implNames      map[string]string           // implements_<I> symbol -> type key of I
	implIfaces     map[string]*types.Interface // implements_<I> symbol -> I
	srcLines       map[string][]string
	ufs            map[string]*ufDef
	taggedAxioms   []Clause
	pendingExtends []pendingExtend
	taggedTerms    map[int]*Term
	funcCtxs       map[string]*FuncCtx
	known          map[string]KnownFinding
	knownSplit     map[string]string
	sameAsCache    map[string]*FuncSpec
	sameAsUsed     map[string]string // interface method key -> implementation key whose contract is used
	// interior pointers used as values (interior.go)
	heapTypes       map[string]types.Type // heap key -> pointee Go type
	interiorKinds   map[string]int64
	interiorChecked map[string]bool
	dispatchUsed    map[string]string // implementation key -> interface method key whose dispatch contract uses it
}

func NewVerifier() *Verifier {
	c := NewTermCtx()
	v := &Verifier{c: c, tm: NewTypeMap(c), typePkgs: map[string]*types.Package{}, ssaPkgs: map[string]*ssa.Package{},
		specs: map[string]*FuncSpec{}, ghosts: map[string]*ghostDef{}, specFuncs: map[string]*specFuncDef{}, lemmas: map[string]*Lemma{},
		worlds: map[string]*Sort{}, specConsts: map[string]*Sort{}, aliases: map[string]types.Type{}, pureAs: map[string]*pureFunc{},
		pureByKey: map[string]*pureFunc{}, globalSorts: map[string]*Sort{"$alloc": SInt}, globalsSpec: map[string][]string{},
		strLits: map[string]string{}, opaqueCalls: map[string]map[string]int{}, usedLibSpecs: map[string]bool{}, inlined: map[string]bool{},
		notes: map[string]bool{}, typeTags: map[string]int64{}, srcLines: map[string][]string{}, funcCtxs: map[string]*FuncCtx{}, ufs: map[string]*ufDef{}, taggedTerms: map[int]*Term{}, sameAsUsed: map[string]string{}}
	v.installPrelude()
	return v
}

func (v *Verifier) installPrelude() {
	c := v.c
	c.DefineFun("go_quo", "(define-fun go_quo ((a Int) (b Int)) Int (ite (>= a 0) (ite (> b 0) (div a b) (- (div a (- b)))) (ite (> b 0) (- (div (- a) b)) (div (- a) (- b)))))")
	c.DefineFun("go_rem", "(define-fun go_rem ((a Int) (b Int)) Int (- a (* b (go_quo a b))))", "go_quo")
	c.DefineFun("wrap", "(define-fun wrap ((x Int) (lo Int) (m Int)) Int (+ lo (mod (- x lo) m)))")
}

func (v *Verifier) Load(dir string, patterns []string, tags string) error {
	cfg := &packages.Config{
		Mode: packages.NeedName | packages.NeedFiles | packages.NeedCompiledGoFiles | packages.NeedImports | packages.NeedDeps |
			packages.NeedTypes | packages.NeedSyntax | packages.NeedTypesInfo | packages.NeedTypesSizes,
		Dir: dir,
	}
	if tags != "" {
		cfg.BuildFlags = []string{"-tags=" + tags}
	}
	pkgs, err := packages.Load(cfg, patterns...)
	if err != nil {
		return err
	}
	nerr := 0
	for _, p := range pkgs {
		for _, e := range p.Errors {
			fmt.Fprintf(os.Stderr, "load error: %v\n", e)
			nerr++
		}
	}
	if nerr > 0 {
		return fmt.Errorf("%d package load errors", nerr)
	}
	v.pkgs = pkgs
	packages.Visit(pkgs, nil, func(p *packages.Package) {
		if p.Types != nil {
			v.typePkgs[p.PkgPath] = p.Types
		}
	})
	prog, spkgs := ssautil.Packages(pkgs, ssa.NaiveForm|ssa.GlobalDebug)
	v.prog = prog
	v.fset = prog.Fset
	for i, sp := range spkgs {
		if sp == nil {
			return fmt.Errorf("no SSA for %s", pkgs[i].PkgPath)
		}
		sp.Build()
		v.ssaPkgs[pkgs[i].PkgPath] = sp
	}
	return nil
}

// lookupGoType resolves "pkg/path.Name", with optional * and [] prefixes.
func (v *Verifier) lookupGoType(s string) (types.Type, error) {
	if strings.HasPrefix(s, "*") {
		t, err := v.lookupGoType(s[1:])
		if err != nil {
			return nil, err
		}
		return types.NewPointer(t), nil
	}
	if strings.HasPrefix(s, "[]") {
		t, err := v.lookupGoType(s[2:])
		if err != nil {
			return nil, err
		}
		return types.NewSlice(t), nil
	}
	dot := strings.LastIndex(s, ".")
	if dot < 0 {
		for _, b := range types.Typ {
			if b.Name() == s {
				return b, nil
			}
		}
		if s == "error" {
			return types.Universe.Lookup("error").Type(), nil
		}
		return nil, fmt.Errorf("unknown Go type %q", s)
	}
	pkg := v.typePkgs[s[:dot]]
	if pkg == nil {
		return nil, fmt.Errorf("package %q not loaded (type %s)", s[:dot], s)
	}
	obj := pkg.Scope().Lookup(s[dot+1:])
	if obj == nil {
		return nil, fmt.Errorf("type %s not found", s)
	}
	if _, ok := obj.(*types.TypeName); !ok {
		return nil, fmt.Errorf("%s is not a type", s)
	}
	return obj.Type(), nil
}

// lookupFunc resolves a function key to its types.Func.
func (v *Verifier) lookupFunc(key string) (*types.Func, error) {
	if strings.HasPrefix(key, "(") {
		end := strings.Index(key, ")")
		if end < 0 {
			return nil, fmt.Errorf("bad func key %q", key)
		}
		recv := key[1:end]
		meth := strings.TrimPrefix(key[end+1:], ".")
		t, err := v.lookupGoType(recv)
		if err != nil {
			return nil, err
		}
		var pkg *types.Package
		if n, ok := t.(*types.Named); ok {
			pkg = n.Obj().Pkg()
		} else if p := pointee(t); p != nil {
			if n, ok := p.(*types.Named); ok {
				pkg = n.Obj().Pkg()
			}
		}
		obj, _, _ := types.LookupFieldOrMethod(t, true, pkg, meth)
		f, ok := obj.(*types.Func)
		if !ok {
			return nil, fmt.Errorf("method %s not found", key)
		}
		return f, nil
	}
	dot := strings.LastIndex(key, ".")
	if dot < 0 {
		return nil, fmt.Errorf("bad func key %q", key)
	}
	pkg := v.typePkgs[key[:dot]]
	if pkg == nil {
		return nil, fmt.Errorf("package %q not loaded (func %s)", key[:dot], key)
	}
	obj := pkg.Scope().Lookup(key[dot+1:])
	switch o := obj.(type) {
	case *types.Func:
		return o, nil
	case *types.Var:
		// package-level function variable (e.g. sdk.NewDec)
		if sig, ok := o.Type().Underlying().(*types.Signature); ok {
			return types.NewFunc(token.NoPos, pkg, o.Name(), sig), nil
		}
	}
	return nil, fmt.Errorf("func %s not found", key)
}

func (v *Verifier) resolveType(name string) (*Sort, types.Type, error) {
	if strings.HasPrefix(name, "raw[]") {
		// `raw[]T`: the concrete (arr,len) slice sort of []T even when []T is mapped to an abstract list sort - the sort of a
		// `rawslice` variable; lets a lib spec axiomatise fromraw_<sort> (the abstract reading of such a slice)
		_, gt, err := v.resolveType(name[len("raw[]"):])
		if err != nil {
			return nil, nil, err
		}
		if gt == nil {
			return nil, nil, fmt.Errorf("type %s: element has no Go type", name)
		}
		return v.tm.RawSliceSort(types.NewSlice(gt)), nil, nil
	}
	if strings.HasPrefix(name, "*") || strings.HasPrefix(name, "[]") {
		pre := "*"
		if strings.HasPrefix(name, "[]") {
			pre = "[]"
		}
		_, gt, err := v.resolveType(name[len(pre):])
		if err != nil {
			return nil, nil, err
		}
		if gt == nil {
			return nil, nil, fmt.Errorf("type %s: element has no Go type", name)
		}
		var t types.Type
		if pre == "*" {
			t = types.NewPointer(gt)
		} else {
			t = types.NewSlice(gt)
		}
		return v.tm.SortOf(t), t, nil
	}
	if gt, ok := v.aliases[name]; ok {
		return v.tm.SortOf(gt), gt, nil
	}
	switch name {
	case "bool":
		return SBool, types.Typ[types.Bool], nil
	case "string":
		return v.tm.SStr, types.Typ[types.String], nil
	case "error":
		return SInt, types.Universe.Lookup("error").Type(), nil
	}
	for _, b := range types.Typ {
		if b.Name() == name && b.Info()&types.IsInteger != 0 {
			return SInt, b, nil
		}
	}
	if s := v.c.Sorts.Lookup(name); s != nil {
		return s, nil, nil
	}
	if strings.Contains(name, ".") {
		gt, err := v.lookupGoType(name)
		if err != nil {
			return nil, nil, err
		}
		return v.tm.SortOf(gt), gt, nil
	}
	return nil, nil, fmt.Errorf("unknown type %q", name)
}

// LoadSpecFile registers the declarations of one spec file.
func (v *Verifier) LoadSpecFile(path string, pkgPath string, lib bool) error {
	src, err := os.ReadFile(path)
	if err != nil {
		return err
	}
	sf, err := ParseSpecFile(path, string(src), pkgPath)
	if err != nil {
		return err
	}
	if v.c.Sorts.Resolve == nil {
		v.c.Sorts.Resolve = func(name string) *Sort {
			if so, _, err := v.resolveType(name); err == nil {
				return so
			}
			return nil
		}
	}
	// aliases first: sort definitions may mention them
	for _, a := range sf.Aliases {
		gt, err := v.lookupGoType(a[1])
		if err != nil {
			if lib {
				continue // package not loaded for this property
			}
			return fmt.Errorf("%s: alias %s: %v", path, a[0], err)
		}
		v.aliases[a[0]] = gt
	}
	for _, s := range sf.Sorts {
		if s[1] == "" {
			v.c.Sorts.Unint(s[0])
		}
	}
	for _, a := range sf.Aliases {
		gt, err := v.lookupGoType(a[1])
		if err != nil {
			if lib {
				continue // package not loaded for this property
			}
			return fmt.Errorf("%s: alias %s: %v", path, a[0], err)
		}
		v.aliases[a[0]] = gt
	}
	for _, s := range sf.Sorts {
		if s[1] == "" {
			continue
		}
		so, err := v.parseSortText(s[1])
		if err != nil {
			if lib {
				continue
			}
			return fmt.Errorf("%s: sort %s: %v", path, s[0], err)
		}
		v.c.Sorts.byName[s[0]] = so
	}
	for _, t := range sf.Types {
		so := v.c.Sorts.Lookup(t[1])
		if so == nil {
			return fmt.Errorf("%s: type %s: unknown sort %s", path, t[0], t[1])
		}
		at := &AbstractType{GoType: t[0], Sort: so}
		for i := 2; i < len(t); i++ {
			switch t[i] {
			case "list":
				if i+2 >= len(t) {
					return fmt.Errorf("%s: type %s: list NIL CONS", path, t[0])
				}
				at.ListNil, at.ListCons = t[i+1], t[i+2]
				i += 2
			case "seq":
				if i+2 >= len(t) {
					return fmt.Errorf("%s: type %s: seq LEN AT", path, t[0])
				}
				at.SeqLen, at.SeqAt = t[i+1], t[i+2]
				i += 2
			case "opaque":
				at.Opaque = true
			default:
				return fmt.Errorf("%s: type %s: unknown flag %s", path, t[0], t[i])
			}
		}
		v.tm.abstract[t[0]] = at
	}
	for _, w := range sf.Worlds {
		so, _, err := v.resolveType(w[1])
		if err != nil {
			var e2 error
			so, e2 = v.c.Sorts.ParseSort(w[1])
			if e2 != nil {
				return fmt.Errorf("%s: world %s: %v / %v", path, w[0], err, e2)
			}
		}
		v.worlds[w[0]] = so
		v.globalSorts[w[0]] = so
	}
	for _, k := range sf.Consts {
		so, _, err := v.resolveType(k[1])
		if err != nil {
			var e2 error
			so, e2 = v.c.Sorts.ParseSort(k[1])
			if e2 != nil {
				return fmt.Errorf("%s: const %s: %v", path, k[0], err)
			}
		}
		v.specConsts[k[0]] = so
	}
	for _, g := range sf.Globals {
		if len(g) < 1 {
			continue
		}
		v.globalsSpec[g[0]] = g[1:]
	}
	for _, d := range sf.UFs {
		u := &ufDef{Name: d.Name}
		ok := true
		for _, p := range d.Params {
			so, gt, err := v.resolveTypeOrSort(p.Type)
			if err != nil {
				if lib {
					ok = false
					break
				}
				return fmt.Errorf("%s: uf %s: %v", path, d.Name, err)
			}
			u.PSorts = append(u.PSorts, so)
			u.PGoT = append(u.PGoT, gt)
		}
		if !ok {
			continue
		}
		so, gt, err := v.resolveTypeOrSort(d.Ret)
		if err != nil {
			if lib {
				continue
			}
			return fmt.Errorf("%s: uf %s: %v", path, d.Name, err)
		}
		u.Ret, u.RetGoT = so, gt
		v.c.DeclareFun(d.Name, u.PSorts, so)
		v.ufs[d.Name] = u
	}
	for _, d := range sf.SpecFuncs {
		def := &specFuncDef{Name: d.Name, Params: d.Params, Def: d.Def, SMT: d.SMT != ""}
		for _, p := range d.Params {
			so, gt, err := v.resolveTypeOrSort(p.Type)
			if err != nil {
				if lib {
					def = nil
					break
				}
				return fmt.Errorf("%s: specfunc %s: %v", path, d.Name, err)
			}
			def.PSorts = append(def.PSorts, so)
			def.PGoT = append(def.PGoT, gt)
		}
		if def == nil {
			continue
		}
		so, gt, err := v.resolveTypeOrSort(d.Ret)
		if err != nil {
			if lib {
				continue
			}
			return fmt.Errorf("%s: specfunc %s: %v", path, d.Name, err)
		}
		def.Ret, def.RetGoT = so, gt
		if def.SMT {
			var sb strings.Builder
			fmt.Fprintf(&sb, "(define-fun %s (", d.Name)
			for i, p := range d.Params {
				fmt.Fprintf(&sb, "(%s %s)", p.Name, def.PSorts[i].Name)
			}
			fmt.Fprintf(&sb, ") %s %s)", so.Name, d.SMT)
			var deps []string
			for _, tk := range tokenizeSexp(d.SMT) {
				if _, ok := v.c.defs[tk]; ok {
					deps = append(deps, tk)
				} else if _, ok := v.c.funcs[tk]; ok {
					deps = append(deps, tk)
				}
			}
			v.c.DefineFun(d.Name, sb.String(), deps...)
			if strings.Contains(d.SMT, "(_ map") || strings.Contains(d.SMT, "as const") {
				v.c.defSigs[d.Name] = &FuncSig{Name: d.Name, Params: def.PSorts, Ret: so}
			}
		}
		v.specFuncs[d.Name] = def
	}
	for _, g := range sf.Ghosts {
		gd := &ghostDef{G: g, Sym: "g_" + g.Name}
		for _, p := range g.Params {
			so, gt, err := v.resolveTypeOrSort(p.Type)
			if err != nil {
				if lib {
					gd = nil
					break
				}
				return fmt.Errorf("%s: ghost %s: %v", path, g.Name, err)
			}
			gd.PSorts = append(gd.PSorts, so)
			gd.PGoT = append(gd.PGoT, gt)
		}
		if gd == nil {
			continue
		}
		so, gt, err := v.resolveTypeOrSort(g.Ret)
		if err != nil {
			if lib {
				continue
			}
			return fmt.Errorf("%s: ghost %s: %v", path, g.Name, err)
		}
		gd.Ret, gd.RetGoT = so, gt
		if g.Def == nil {
			return fmt.Errorf("%s: ghost func %s has no def", path, g.Name)
		}
		v.c.DeclareFun(gd.Sym, gd.PSorts, gd.Ret)
		v.ghosts[g.Name] = gd
	}
	for _, l := range sf.Lemmas {
		if _, dup := v.lemmas[l.Name]; dup {
			return fmt.Errorf("%s: duplicate lemma %s", path, l.Name)
		}
		v.lemmas[l.Name] = l
		v.lemmaOrder = append(v.lemmaOrder, l.Name)
	}
	for _, ax := range sf.Axioms {
		if ax.Label != "" {
			v.taggedAxioms = append(v.taggedAxioms, ax)
		} else {
			v.axioms = append(v.axioms, ax)
		}
	}
	for _, f := range sf.Funcs {
		f.Lib = lib
		if f.Extend {
			prev, ok := v.specs[f.Key]
			if !ok {
				if lib {
					continue // the extended dependency is not specified in this configuration
				}
				// contract files are read in file-name order: the contract being extended may live in a file of another tag that
				// sorts later (zz_contracts_c05ks_verif.go extends zz_contracts_c19_verif.go) - retry once all files are read
				v.pendingExtends = append(v.pendingExtends, pendingExtend{f: f, path: path})
				continue
			}
			if err := v.applyExtend(f, prev, path); err != nil {
				return err
			}
			continue
		}
		if prev, dup := v.specs[f.Key]; dup {
			if lib && prev.Lib {
				// the same dependency function specified in two lib spec files: the first one (core directory first) wins
				v.notes[fmt.Sprintf("duplicate lib spec for %s in %s ignored (first definition in %s is used)", f.Key, path, prev.File)] = true
				continue
			}
			if !lib && prev.Lib && pkgPath != "" && !strings.Contains(f.Key, pkgPath+".") {
				// a contract file restates the assumed contract of a DEPENDENCY (a function of another package, given by its
				// full key) that a lib spec of this configuration already specifies: like for lib specs the first one wins
				v.notes[fmt.Sprintf("dependency spec for %s in %s ignored (the lib spec in %s is used)", f.Key, path, prev.File)] = true
				continue
			}
			return fmt.Errorf("%s:%d: duplicate spec for %s", path, f.Line, f.Key)
		}
		v.specs[f.Key] = f
		if f.Pure || f.AsName != "" || f.Def != nil {
			tf, err := v.lookupFunc(f.Key)
			if err != nil {
				if lib {
					// library function not reachable from the loaded packages: ignore silently
					continue
				}
				return fmt.Errorf("%s:%d: %v", path, f.Line, err)
			}
			pf := v.makePure(f, tf)
			v.pureByKey[f.Key] = pf
			if f.AsName != "" {
				v.pureAs[f.AsName] = pf
			}
		}
	}
	return nil
}

func (v *Verifier) resolveTypeOrSort(name string) (*Sort, types.Type, error) {
	so, gt, err := v.resolveType(name)
	if err == nil {
		return so, gt, nil
	}
	if s2, e2 := v.parseSortText(name); e2 == nil {
		return s2, nil, nil
	}
	return nil, nil, err
}

func (v *Verifier) makePure(f *FuncSpec, tf *types.Func) *pureFunc {
	sig := tf.Type().(*types.Signature)
	pf := &pureFunc{Spec: f, Sig: sig, Name: f.Key}
	if f.AsName != "" {
		pf.Name = f.AsName
	}
	names, tys := sigParams(sig)
	if len(f.ParamNames) > 0 {
		if len(f.ParamNames) != len(names) {
			panic(engineError{fmt.Sprintf("%s: params clause has %d names, function has %d parameters (incl. receiver)", f.Key, len(f.ParamNames), len(names))})
		}
		names = f.ParamNames
	}
	pf.Params, pf.PTypes = names, tys
	return pf
}

func sigParams(sig *types.Signature) ([]string, []types.Type) {
	var names []string
	var tys []types.Type
	if r := sig.Recv(); r != nil {
		n := r.Name()
		if n == "" || n == "_" {
			n = "recv"
		}
		names = append(names, n)
		tys = append(tys, r.Type())
	}
	for i := 0; i < sig.Params().Len(); i++ {
		p := sig.Params().At(i)
		n := p.Name()
		if n == "" || n == "_" {
			n = fmt.Sprintf("p%d", i)
		}
		names = append(names, n)
		tys = append(tys, p.Type())
	}
	return names, tys
}

// findFunction finds the ssa.Function for a key among the loaded (syntax) packages.
func (v *Verifier) findFunction(key string) *ssa.Function {
	// function literals are addressed by go/ssa's name of the anonymous function: pkg/path.Outer$1, pkg/path.Outer$1$2
	var inAnon func(fn *ssa.Function) *ssa.Function
	inAnon = func(fn *ssa.Function) *ssa.Function {
		for _, af := range fn.AnonFuncs {
			if af.String() == key {
				return af
			}
			if r := inAnon(af); r != nil {
				return r
			}
		}
		return nil
	}
	for _, sp := range v.ssaPkgs {
		for _, m := range sp.Members {
			switch mm := m.(type) {
			case *ssa.Function:
				if mm.String() == key {
					return mm
				}
				if strings.HasPrefix(key, mm.String()+"$") {
					if r := inAnon(mm); r != nil {
						return r
					}
				}
			case *ssa.Type:
				for _, t := range []types.Type{mm.Type(), types.NewPointer(mm.Type())} {
					ms := v.prog.MethodSets.MethodSet(t)
					for i := 0; i < ms.Len(); i++ {
						fn := v.prog.MethodValue(ms.At(i))
						if fn != nil && fn.String() == key && fn.Synthetic == "" {
							return fn
						}
					}
				}
			}
		}
	}
	return nil
}

func (v *Verifier) specFilesFor(dir string) []string {
	var out []string
	filepath.Walk(dir, func(p string, info os.FileInfo, err error) error {
		if err == nil && !info.IsDir() && strings.HasSuffix(p, ".spec") {
			out = append(out, p)
		}
		return nil
	})
	sort.Strings(out)
	return out
}

type ufDef struct {
	Name   string
	PSorts []*Sort
	PGoT   []types.Type
	Ret    *Sort
	RetGoT types.Type
}

// parseSortText parses an SMT sort expression whose atoms may be sort names, aliases or Go type names.
func (v *Verifier) parseSortText(txt string) (*Sort, error) {
	toks := tokenizeSexp(txt)
	pos := 0
	var rec func() (*Sort, error)
	rec = func() (*Sort, error) {
		if pos >= len(toks) {
			return nil, fmt.Errorf("sort: unexpected end in %q", txt)
		}
		t := toks[pos]
		pos++
		if t == "(" {
			if pos < len(toks) && toks[pos] == "Array" {
				pos++
				k, err := rec()
				if err != nil {
					return nil, err
				}
				e, err := rec()
				if err != nil {
					return nil, err
				}
				if pos >= len(toks) || toks[pos] != ")" {
					return nil, fmt.Errorf("sort: expected ) in %q", txt)
				}
				pos++
				return v.c.Sorts.Array(k, e), nil
			}
			return nil, fmt.Errorf("sort: unsupported %q", txt)
		}
		if s := v.c.Sorts.Lookup(t); s != nil {
			return s, nil
		}
		s, _, err := v.resolveType(t)
		return s, err
	}
	return rec()
}

// clauseSelected tells whether a labelled postcondition / call-site clause belongs to this run (config skip_labels / only_labels).
func (v *Verifier) clauseSelected(label string) bool {
	for _, p := range v.skipLabels {
		if strings.HasPrefix(label, p) {
			return false
		}
	}
	if len(v.onlyLabels) == 0 {
		return true
	}
	for _, p := range v.onlyLabels {
		if strings.HasPrefix(label, p) {
			return true
		}
	}
	return false
}

// pendingExtend is an `extend func` clause of a contract file read before the file that holds the contract it extends.
type pendingExtend struct {
	f    *FuncSpec
	path string
}

// ApplyPendingExtends applies the `extend func` clauses that were read before their base contract (after all contract files are loaded).
func (v *Verifier) ApplyPendingExtends() error {
	for _, pe := range v.pendingExtends {
		prev, ok := v.specs[pe.f.Key]
		if !ok {
			return fmt.Errorf("%s:%d: extend func %s: no contract to extend", pe.path, pe.f.Line, pe.f.Key)
		}
		if err := v.applyExtend(pe.f, prev, pe.path); err != nil {
			return err
		}
	}
	v.pendingExtends = nil
	return nil
}

func (v *Verifier) applyExtend(f, prev *FuncSpec, path string) error {
	if len(f.ParamNames) > 0 || f.Pure || f.Def != nil || f.Trusted || f.Inline || f.Opaque || f.Fresh {
		return fmt.Errorf("%s:%d: extend func %s: only requires / ensures / modifies / let / call / loop / allow clauses can be added", path, f.Line, f.Key)
	}
	if prev.Pure || prev.Def != nil {
		return fmt.Errorf("%s:%d: extend func %s: a pure / defined function cannot be extended", path, f.Line, f.Key)
	}
	prev.Requires = append(prev.Requires, f.Requires...)
	prev.Ensures = append(prev.Ensures, f.Ensures...)
	prev.Modifies = append(prev.Modifies, f.Modifies...)
	prev.Lets = append(prev.Lets, f.Lets...)
	prev.Ghosts = append(prev.Ghosts, f.Ghosts...)
	prev.Uses = append(prev.Uses, f.Uses...)
	for k, cl := range f.LoopInv {
		prev.LoopInv[k] = append(prev.LoopInv[k], cl...)
	}
	for k, cl := range f.LoopUse {
		prev.LoopUse[k] = append(prev.LoopUse[k], cl...)
	}
	for k, cl := range f.CallReq {
		prev.CallReq[k] = append(prev.CallReq[k], cl...)
	}
	for k := range f.Allow {
		prev.Allow[k] = true
	}
	// `call VAR contract KEY` and `rawslice` clauses of the extension (before: parsed but dropped)
	for k, t := range f.CallSpec {
		if prev.CallSpec == nil {
			prev.CallSpec = map[string]string{}
		}
		prev.CallSpec[k] = t
	}
	for k := range f.RawSlice {
		if prev.RawSlice == nil {
			prev.RawSlice = map[string]bool{}
		}
		prev.RawSlice[k] = true
	}
	v.notes[fmt.Sprintf("contract of %s (%s) extended in %s", f.Key, prev.File, path)] = true
	return nil
}
