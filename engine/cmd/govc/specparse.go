package main

// Contract / lib-spec language: file structure and expression parser.

import (
	"fmt"
	"math/big"
	"strconv"
	"strings"
)

type Param struct {
	Name string
	Type string
}

type Expr struct {
	Kind   string // id,int,str,bool,un,bin,call,index,slice,field,quant
	Name   string
	Int    *big.Int
	Args   []*Expr
	Vars   []Param
	Forall bool
}

func (e *Expr) String() string {
	if e == nil {
		return "<nil>"
	}
	switch e.Kind {
	case "id":
		return e.Name
	case "int":
		return e.Int.String()
	case "str":
		return strconv.Quote(e.Name)
	case "bool":
		return e.Name
	case "un":
		return e.Name + e.Args[0].String()
	case "bin":
		return "(" + e.Args[0].String() + " " + e.Name + " " + e.Args[1].String() + ")"
	case "call":
		var as []string
		for _, a := range e.Args {
			as = append(as, a.String())
		}
		return e.Name + "(" + strings.Join(as, ", ") + ")"
	case "index":
		return e.Args[0].String() + "[" + e.Args[1].String() + "]"
	case "slice":
		lo, hi := "", ""
		if e.Args[1] != nil {
			lo = e.Args[1].String()
		}
		if e.Args[2] != nil {
			hi = e.Args[2].String()
		}
		return e.Args[0].String() + "[" + lo + ":" + hi + "]"
	case "field":
		return e.Args[0].String() + "." + e.Name
	case "quant":
		q := "exists"
		if e.Forall {
			q = "forall"
		}
		var vs []string
		for _, v := range e.Vars {
			vs = append(vs, v.Name+" "+v.Type)
		}
		return "(" + q + " " + strings.Join(vs, ", ") + " :: " + e.Args[0].String() + ")"
	}
	return "?"
}

// ------------------------------------------------------------ lexer

type tok struct {
	k string // id,int,str,op,eof
	s string
}

func lexExpr(src string) ([]tok, error) {
	var out []tok
	i := 0
	for i < len(src) {
		c := src[i]
		switch {
		case c == ' ' || c == '\t' || c == '\n' || c == '\r':
			i++
		case c >= '0' && c <= '9':
			j := i
			for j < len(src) && (src[j] >= '0' && src[j] <= '9' || src[j] == '_') {
				j++
			}
			out = append(out, tok{"int", strings.ReplaceAll(src[i:j], "_", "")})
			i = j
		case c == '"':
			j := i + 1
			for j < len(src) && src[j] != '"' {
				if src[j] == '\\' {
					j++
				}
				j++
			}
			if j >= len(src) {
				return nil, fmt.Errorf("unterminated string in %q", src)
			}
			s, err := strconv.Unquote(src[i : j+1])
			if err != nil {
				return nil, err
			}
			out = append(out, tok{"str", s})
			i = j + 1
		case isIdentStart(c):
			j := i + 1
			for j < len(src) && isIdentPart(src[j]) {
				j++
			}
			out = append(out, tok{"id", src[i:j]})
			i = j
		default:
			ops := []string{"<==>", "==>", "::", "==", "!=", "<=", ">=", "&&", "||", "+", "-", "*", "/", "%", "<", ">", "!", "(", ")", "[", "]", ",", ".", ":"}
			found := false
			for _, o := range ops {
				if strings.HasPrefix(src[i:], o) {
					out = append(out, tok{"op", o})
					i += len(o)
					found = true
					break
				}
			}
			if !found {
				return nil, fmt.Errorf("unexpected character %q in %q", c, src)
			}
		}
	}
	out = append(out, tok{"eof", ""})
	return out, nil
}

func isIdentStart(c byte) bool {
	return c >= 'a' && c <= 'z' || c >= 'A' && c <= 'Z' || c == '_' || c == '#' || c == '$'
}
func isIdentPart(c byte) bool {
	return isIdentStart(c) || c >= '0' && c <= '9' || c == '\''
}

type exprParser struct {
	toks []tok
	pos  int
	src  string
}

func ParseExpr(src string) (*Expr, error) {
	toks, err := lexExpr(src)
	if err != nil {
		return nil, err
	}
	p := &exprParser{toks: toks, src: src}
	e, err := p.parse(0)
	if err != nil {
		return nil, err
	}
	if p.peek().k != "eof" {
		return nil, fmt.Errorf("trailing tokens at %q in %q", p.peek().s, src)
	}
	return e, nil
}

func (p *exprParser) peek() tok { return p.toks[p.pos] }
func (p *exprParser) next() tok { t := p.toks[p.pos]; p.pos++; return t }
func (p *exprParser) isOp(s string) bool {
	t := p.peek()
	return t.k == "op" && t.s == s
}
func (p *exprParser) expect(s string) error {
	if !p.isOp(s) {
		return fmt.Errorf("expected %q, got %q in %q", s, p.peek().s, p.src)
	}
	p.pos++
	return nil
}

var binPrec = map[string]int{
	"<==>": 1, "==>": 2, "||": 3, "&&": 4,
	"==": 5, "!=": 5, "<": 5, "<=": 5, ">": 5, ">=": 5,
	"+": 6, "-": 6, "*": 7, "/": 7, "%": 7,
}

func (p *exprParser) parse(minPrec int) (*Expr, error) {
	lhs, err := p.unary()
	if err != nil {
		return nil, err
	}
	for {
		t := p.peek()
		if t.k != "op" {
			break
		}
		prec, ok := binPrec[t.s]
		if !ok || prec < minPrec {
			break
		}
		p.pos++
		nextMin := prec + 1
		if t.s == "==>" {
			nextMin = prec // right assoc
		}
		rhs, err := p.parse(nextMin)
		if err != nil {
			return nil, err
		}
		lhs = &Expr{Kind: "bin", Name: t.s, Args: []*Expr{lhs, rhs}}
	}
	return lhs, nil
}

func (p *exprParser) unary() (*Expr, error) {
	t := p.peek()
	if t.k == "op" && (t.s == "!" || t.s == "-" || t.s == "*") {
		p.pos++
		x, err := p.unary()
		if err != nil {
			return nil, err
		}
		return &Expr{Kind: "un", Name: t.s, Args: []*Expr{x}}, nil
	}
	return p.postfix()
}

func (p *exprParser) postfix() (*Expr, error) {
	x, err := p.primary()
	if err != nil {
		return nil, err
	}
	for {
		switch {
		case p.isOp("."):
			p.pos++
			t := p.next()
			if t.k != "id" && t.k != "int" {
				return nil, fmt.Errorf("expected field name after '.' in %q", p.src)
			}
			x = &Expr{Kind: "field", Name: t.s, Args: []*Expr{x}}
		case p.isOp("["):
			p.pos++
			var lo, hi *Expr
			isSlice := false
			if !p.isOp(":") {
				lo, err = p.parse(0)
				if err != nil {
					return nil, err
				}
			}
			if p.isOp(":") {
				isSlice = true
				p.pos++
				if !p.isOp("]") {
					hi, err = p.parse(0)
					if err != nil {
						return nil, err
					}
				}
			}
			if err := p.expect("]"); err != nil {
				return nil, err
			}
			if isSlice {
				x = &Expr{Kind: "slice", Args: []*Expr{x, lo, hi}}
			} else {
				x = &Expr{Kind: "index", Args: []*Expr{x, lo}}
			}
		case p.isOp("(") && x.Kind == "id":
			p.pos++
			var args []*Expr
			for !p.isOp(")") {
				a, err := p.parse(0)
				if err != nil {
					return nil, err
				}
				args = append(args, a)
				if p.isOp(",") {
					p.pos++
				} else {
					break
				}
			}
			if err := p.expect(")"); err != nil {
				return nil, err
			}
			x = &Expr{Kind: "call", Name: x.Name, Args: args}
		default:
			return x, nil
		}
	}
}

func (p *exprParser) primary() (*Expr, error) {
	t := p.next()
	switch t.k {
	case "int":
		v, ok := new(big.Int).SetString(t.s, 10)
		if !ok {
			return nil, fmt.Errorf("bad int %q", t.s)
		}
		return &Expr{Kind: "int", Int: v}, nil
	case "str":
		return &Expr{Kind: "str", Name: t.s}, nil
	case "id":
		switch t.s {
		case "true", "false":
			return &Expr{Kind: "bool", Name: t.s}, nil
		case "forall", "exists":
			var vars []Param
			for {
				n := p.next()
				if n.k != "id" {
					return nil, fmt.Errorf("quantifier: expected var name in %q", p.src)
				}
				ty, err := p.typeName()
				if err != nil {
					return nil, err
				}
				vars = append(vars, Param{n.s, ty})
				if p.isOp(",") {
					p.pos++
					continue
				}
				break
			}
			if err := p.expect("::"); err != nil {
				return nil, err
			}
			body, err := p.parse(0)
			if err != nil {
				return nil, err
			}
			return &Expr{Kind: "quant", Forall: t.s == "forall", Vars: vars, Args: []*Expr{body}}, nil
		}
		return &Expr{Kind: "id", Name: t.s}, nil
	case "op":
		if t.s == "(" {
			e, err := p.parse(0)
			if err != nil {
				return nil, err
			}
			if err := p.expect(")"); err != nil {
				return nil, err
			}
			return e, nil
		}
	}
	return nil, fmt.Errorf("unexpected token %q in %q", t.s, p.src)
}

// typeName: ident | *ident | []ident (as text)
func (p *exprParser) typeName() (string, error) {
	s := ""
	for p.isOp("*") || p.isOp("[") {
		if p.isOp("*") {
			p.pos++
			s += "*"
		} else {
			p.pos++
			if err := p.expect("]"); err != nil {
				return "", err
			}
			s += "[]"
		}
	}
	t := p.next()
	if t.k != "id" {
		return "", fmt.Errorf("expected type name, got %q in %q", t.s, p.src)
	}
	return s + t.s, nil
}

// ------------------------------------------------------------ file structure

type Clause struct {
	Label string
	E     *Expr
	Src   string
	Where string // for use-hints: entry|return|head|back|init|exit
	Line  int
}

// wired LABEL: CALLEE[#n] arg K from SOURCE  - the K-th argument (0-based, receiver not counted) of the n-th call of CALLEE (suffix of
// the callee's full name) is (the address of) a local variable whose only assignment is the result of a call of SOURCE
type WiredClause struct {
	Label, Callee, Source string
	Nth, Arg              int
	Line                  int
}

type FuncSpec struct {
	Key        string // full function key
	ParamNames []string
	Pure       bool
	AsName     string
	Reads      []string
	Def        *Expr
	DefSMT     string
	Inline     bool
	Opaque     bool
	Trusted    bool
	Fresh      bool
	Requires   []Clause
	Ensures    []Clause
	Modifies   []*Expr
	Lets       []Param // name -> expr source (Type field holds source)
	LoopInv    map[int][]Clause
	LoopUse    map[int][]Clause
	Uses       []Clause
	CallReq    map[string][]Clause // callee pattern -> clauses
	CallSpec   map[string]string   // function-typed variable -> key of the (assumed) contract its calls use
	Allow      map[string]bool
	Unreach    []string
	// structural: the function is not executed symbolically; only its `wired` clauses are checked, over the SSA data flow
	Structural bool
	// split LABEL ... (or `split *`): these postconditions are proved per return statement instead of over the merged return state
	SplitPosts map[string]bool
	Wired      []WiredClause
	File       string
	Line       int
	Lib        bool
	NoPanic    bool
	MayPanic   bool
	Out        []int
	Ghosts     []Param
	RawSlice   map[string]bool // local variables of an abstract list type that are modelled as concrete slices
	Extend     bool            // `extend func KEY`: the clauses are appended to the contract of KEY declared earlier
	SameAs     string          // interface method: the contract is that of this (verified) implementation
	Dispatch   []string        // interface method: calls are a case split over the contracts of these (verified) implementations
	Model      string          // calls execute the body of this Go function (same parameter list, receiver first) in place: an
	// executable model of a function whose own body is not loaded (dependency, interface method) - assumed, reported
}

type GhostFunc struct {
	Name   string
	Params []Param
	Ret    string
	Def    *Expr
	File   string
}

type SpecFuncDecl struct {
	Name   string
	Params []Param
	Ret    string
	SMT    string
	Def    *Expr
}

type Lemma struct {
	Name      string
	Params    []Param
	Requires  []Clause
	Ensures   []Clause
	Induction string
	Above     *Expr
	Uses      []Clause
	Unfold    []*Expr
	Trusted   bool
	File      string
	Line      int
}

type SpecFile struct {
	Path      string
	PkgPath   string
	Sorts     [][2]string // name, smt sort text ("" = uninterpreted)
	Types     [][]string  // gotype, sortname, flags...
	Aliases   [][2]string // name, gotype
	Worlds    [][2]string
	Consts    [][2]string
	SpecFuncs []*SpecFuncDecl
	Ghosts    []*GhostFunc
	Lemmas    []*Lemma
	Funcs     []*FuncSpec
	Globals   [][]string
	Axioms    []Clause
	UFs       []*SpecFuncDecl
}

var topKeywords = map[string]bool{"sort": true, "type": true, "alias": true, "world": true, "const": true, "specfunc": true,
	"ghost": true, "lemma": true, "func": true, "global": true, "axiom": true, "uf": true, "extend": true}
var subKeywords = map[string]bool{"ghostvar": true, "params": true, "pure": true, "def": true, "defsmt": true, "inline": true, "opaque": true, "trusted": true,
	"fresh": true, "requires": true, "ensures": true, "modifies": true, "let": true, "loop": true, "use": true, "unfold": true,
	"induction": true, "call": true, "allow": true, "unreachable": true, "structural": true, "wired": true, "split": true, "reads": true, "nopanic": true, "maypanic": true, "out": true, "as": true,
	"rawslice": true, "sameas": true, "dispatch": true, "model": true}

// extractSpecText returns the contract text of a file: everything inside /*@ ... @*/ blocks,
// or the whole file when there is no such block (lib spec files).
func extractSpecText(src string) (string, string) {
	pkg := ""
	if !strings.Contains(src, "/*@") {
		return src, pkg
	}
	var sb strings.Builder
	lines := strings.Split(src, "\n")
	in := false
	for _, l := range lines {
		tl := strings.TrimSpace(l)
		if !in {
			if strings.HasPrefix(tl, "package ") {
				pkg = strings.TrimSpace(strings.TrimPrefix(tl, "package "))
			}
			if strings.HasPrefix(tl, "/*@") {
				in = true
			}
			sb.WriteString("\n") // keep line numbers
			continue
		}
		if strings.HasPrefix(tl, "@*/") {
			in = false
			sb.WriteString("\n")
			continue
		}
		sb.WriteString(l + "\n")
	}
	return sb.String(), pkg
}

type rawClause struct {
	kw   string
	rest string
	line int
}

func ParseSpecFile(path, src, pkgPath string) (*SpecFile, error) {
	text, _ := extractSpecText(src)
	sf := &SpecFile{Path: path, PkgPath: pkgPath}
	// split into clauses
	var clauses []rawClause
	for i, l := range strings.Split(text, "\n") {
		if k := strings.Index(l, "//"); k >= 0 {
			l = l[:k]
		}
		tl := strings.TrimSpace(l)
		if tl == "" {
			continue
		}
		first := tl
		if k := strings.IndexAny(tl, " \t"); k >= 0 {
			first = tl[:k]
		}
		if topKeywords[first] || subKeywords[first] {
			clauses = append(clauses, rawClause{first, strings.TrimSpace(tl[len(first):]), i + 1})
		} else {
			if len(clauses) == 0 {
				return nil, fmt.Errorf("%s:%d: text before any clause: %q", path, i+1, tl)
			}
			clauses[len(clauses)-1].rest += " " + tl
		}
	}
	var curF *FuncSpec
	var curL *Lemma
	var curG *GhostFunc
	var curS *SpecFuncDecl
	errf := func(c rawClause, f string, a ...interface{}) error {
		return fmt.Errorf("%s:%d: %s", path, c.line, fmt.Sprintf(f, a...))
	}
	parseClause := func(c rawClause, s string) (Clause, error) {
		label := ""
		// optional "label:" prefix
		if k := strings.Index(s, ":"); k > 0 && !strings.Contains(s[:k], " ") && !strings.ContainsAny(s[:k], "([") && !strings.HasPrefix(s[k:], "::") {
			label = s[:k]
			s = strings.TrimSpace(s[k+1:])
		}
		e, err := ParseExpr(s)
		if err != nil {
			return Clause{}, errf(c, "%v", err)
		}
		return Clause{Label: label, E: e, Src: s, Line: c.line}, nil
	}
	for _, c := range clauses {
		if topKeywords[c.kw] {
			curF, curL, curG, curS = nil, nil, nil, nil
		}
		switch c.kw {
		case "sort":
			parts := strings.SplitN(c.rest, "=", 2)
			name := strings.TrimSpace(parts[0])
			def := ""
			if len(parts) == 2 {
				def = strings.TrimSpace(parts[1])
			}
			sf.Sorts = append(sf.Sorts, [2]string{name, def})
		case "type":
			parts := strings.SplitN(c.rest, "=", 2)
			if len(parts) != 2 {
				return nil, errf(c, "type: expected GOTYPE = SORT [flags]")
			}
			rhs := strings.Fields(parts[1])
			sf.Types = append(sf.Types, append([]string{strings.TrimSpace(parts[0])}, rhs...))
		case "alias":
			f := strings.Fields(c.rest)
			if len(f) != 2 {
				return nil, errf(c, "alias NAME GOTYPE")
			}
			sf.Aliases = append(sf.Aliases, [2]string{f[0], f[1]})
		case "world":
			f := strings.SplitN(c.rest, " ", 2)
			if len(f) != 2 {
				return nil, errf(c, "world NAME SORT")
			}
			sf.Worlds = append(sf.Worlds, [2]string{f[0], strings.TrimSpace(f[1])})
		case "const":
			f := strings.SplitN(c.rest, " ", 2)
			if len(f) != 2 {
				return nil, errf(c, "const NAME SORT")
			}
			sf.Consts = append(sf.Consts, [2]string{f[0], strings.TrimSpace(f[1])})
		case "global":
			sf.Globals = append(sf.Globals, strings.Fields(c.rest))
		case "axiom":
			cl, err := parseClause(c, c.rest)
			if err != nil {
				return nil, err
			}
			sf.Axioms = append(sf.Axioms, cl)
		case "uf":
			name, params, ret, err := parseSig(c.rest)
			if err != nil {
				return nil, errf(c, "%v", err)
			}
			sf.UFs = append(sf.UFs, &SpecFuncDecl{Name: name, Params: params, Ret: ret})
		case "specfunc":
			// specfunc name(params) Ret = smt "..."  |  = expr
			eq := strings.Index(c.rest, "=")
			if eq < 0 {
				return nil, errf(c, "specfunc: missing =")
			}
			name, params, ret, err := parseSig(strings.TrimSpace(c.rest[:eq]))
			if err != nil {
				return nil, errf(c, "%v", err)
			}
			body := strings.TrimSpace(c.rest[eq+1:])
			d := &SpecFuncDecl{Name: name, Params: params, Ret: ret}
			if strings.HasPrefix(body, "smt ") {
				s, err := strconv.Unquote(strings.TrimSpace(body[4:]))
				if err != nil {
					return nil, errf(c, "specfunc smt string: %v", err)
				}
				d.SMT = s
			} else {
				e, err := ParseExpr(body)
				if err != nil {
					return nil, errf(c, "%v", err)
				}
				d.Def = e
			}
			sf.SpecFuncs = append(sf.SpecFuncs, d)
			curS = d
		case "ghost":
			rest := strings.TrimSpace(strings.TrimPrefix(c.rest, "func"))
			name, params, ret, err := parseSig(rest)
			if err != nil {
				return nil, errf(c, "%v", err)
			}
			curG = &GhostFunc{Name: name, Params: params, Ret: ret, File: path}
			sf.Ghosts = append(sf.Ghosts, curG)
		case "lemma":
			name, params, _, err := parseSig(c.rest)
			if err != nil {
				return nil, errf(c, "%v", err)
			}
			curL = &Lemma{Name: name, Params: params, File: path, Line: c.line}
			sf.Lemmas = append(sf.Lemmas, curL)
		case "func", "extend":
			key := strings.TrimSpace(c.rest)
			if c.kw == "extend" {
				// extend func KEY: more clauses (requires / ensures / modifies / let / call ... requires) for a contract declared
				// in an earlier file - a property family adds its view of a shared dependency without editing the shared spec
				if !strings.HasPrefix(key, "func ") {
					return nil, errf(c, "extend func KEY")
				}
				key = strings.TrimSpace(strings.TrimPrefix(key, "func "))
			}
			key = qualifyFuncKey(key, pkgPath)
			curF = &FuncSpec{Key: key, LoopInv: map[int][]Clause{}, LoopUse: map[int][]Clause{}, CallReq: map[string][]Clause{},
				Allow: map[string]bool{}, File: path, Line: c.line, Extend: c.kw == "extend"}
			sf.Funcs = append(sf.Funcs, curF)
		// ---- sub clauses
		case "ghostvar":
			if curF == nil {
				return nil, errf(c, "ghostvar outside func")
			}
			f := strings.Fields(c.rest)
			if len(f) != 2 {
				return nil, errf(c, "ghostvar NAME TYPE")
			}
			curF.Ghosts = append(curF.Ghosts, Param{f[0], f[1]})
		case "params":
			if curF == nil {
				return nil, errf(c, "params outside func")
			}
			for _, p := range strings.Split(c.rest, ",") {
				curF.ParamNames = append(curF.ParamNames, strings.TrimSpace(p))
			}
		case "pure":
			if curF == nil {
				return nil, errf(c, "pure outside func")
			}
			curF.Pure = true
			f := strings.Fields(c.rest)
			if len(f) == 2 && f[0] == "as" {
				curF.AsName = f[1]
			}
		case "as":
			if curF == nil {
				return nil, errf(c, "as outside func")
			}
			curF.AsName = strings.TrimSpace(c.rest)
		case "reads":
			if curF == nil {
				return nil, errf(c, "reads outside func")
			}
			for _, p := range strings.Split(c.rest, ",") {
				curF.Reads = append(curF.Reads, strings.TrimSpace(p))
			}
		case "def":
			e, err := ParseExpr(c.rest)
			if err != nil {
				return nil, errf(c, "%v", err)
			}
			switch {
			case curF != nil:
				curF.Def = e
			case curG != nil:
				curG.Def = e
			default:
				return nil, errf(c, "def outside func/ghost")
			}
		case "defsmt":
			if curF == nil {
				return nil, errf(c, "defsmt outside func")
			}
			s, err := strconv.Unquote(c.rest)
			if err != nil {
				return nil, errf(c, "defsmt: %v", err)
			}
			curF.DefSMT = s
		case "inline":
			if curF == nil {
				return nil, errf(c, "inline outside func")
			}
			curF.Inline = true
		case "rawslice":
			if curF == nil {
				return nil, errf(c, "rawslice outside func")
			}
			if curF.RawSlice == nil {
				curF.RawSlice = map[string]bool{}
			}
			for _, p := range strings.Split(c.rest, ",") {
				if n := strings.TrimSpace(p); n != "" {
					curF.RawSlice[n] = true
				}
			}
		case "sameas":
			if curF == nil {
				return nil, errf(c, "sameas outside func")
			}
			curF.SameAs = qualifyFuncKey(strings.TrimSpace(c.rest), pkgPath)
		case "model":
			if curF == nil {
				return nil, errf(c, "model outside func")
			}
			curF.Model = qualifyFuncKey(strings.TrimSpace(c.rest), pkgPath)
		case "dispatch":
			if curF == nil {
				return nil, errf(c, "dispatch outside func")
			}
			for _, p := range strings.Split(c.rest, ",") {
				if n := strings.TrimSpace(p); n != "" {
					curF.Dispatch = append(curF.Dispatch, qualifyFuncKey(n, pkgPath))
				}
			}
		case "opaque":
			if curF == nil {
				return nil, errf(c, "opaque outside func")
			}
			curF.Opaque = true
		case "nopanic":
			curF.NoPanic = true
		case "maypanic":
			curF.MayPanic = true
		case "out":
			for _, p := range strings.Fields(c.rest) {
				n, err := strconv.Atoi(p)
				if err != nil {
					return nil, errf(c, "out: %v", err)
				}
				curF.Out = append(curF.Out, n)
			}
		case "trusted":
			switch {
			case curF != nil:
				curF.Trusted = true
			case curL != nil:
				curL.Trusted = true
			default:
				return nil, errf(c, "trusted outside func/lemma")
			}
		case "fresh":
			if curF == nil {
				return nil, errf(c, "fresh outside func")
			}
			curF.Fresh = true
		case "requires", "ensures":
			cl, err := parseClause(c, c.rest)
			if err != nil {
				return nil, err
			}
			switch {
			case curF != nil && c.kw == "requires":
				curF.Requires = append(curF.Requires, cl)
			case curF != nil:
				curF.Ensures = append(curF.Ensures, cl)
			case curL != nil && c.kw == "requires":
				curL.Requires = append(curL.Requires, cl)
			case curL != nil:
				curL.Ensures = append(curL.Ensures, cl)
			default:
				return nil, errf(c, "%s outside func/lemma", c.kw)
			}
		case "modifies":
			if curF == nil {
				return nil, errf(c, "modifies outside func")
			}
			for _, part := range splitTopLevel(c.rest, ',') {
				e, err := ParseExpr(part)
				if err != nil {
					return nil, errf(c, "%v", err)
				}
				curF.Modifies = append(curF.Modifies, e)
			}
		case "let":
			if curF == nil {
				return nil, errf(c, "let outside func")
			}
			eq := strings.Index(c.rest, "=")
			if eq < 0 {
				return nil, errf(c, "let NAME = EXPR")
			}
			if _, err := ParseExpr(strings.TrimSpace(c.rest[eq+1:])); err != nil {
				return nil, errf(c, "%v", err)
			}
			curF.Lets = append(curF.Lets, Param{strings.TrimSpace(c.rest[:eq]), strings.TrimSpace(c.rest[eq+1:])})
		case "loop":
			if curF == nil {
				return nil, errf(c, "loop outside func")
			}
			f := strings.SplitN(c.rest, " ", 3)
			if len(f) < 3 {
				return nil, errf(c, "loop N invariant|use ...")
			}
			var ns []int
			for _, part := range strings.Split(f[0], ",") {
				n, err := strconv.Atoi(part)
				if err != nil {
					return nil, errf(c, "loop ordinal: %v", err)
				}
				ns = append(ns, n)
			}
			switch f[1] {
			case "invariant":
				cl, err := parseClause(c, f[2])
				if err != nil {
					return nil, err
				}
				for _, n := range ns {
					curF.LoopInv[n] = append(curF.LoopInv[n], cl)
				}
			case "exitassert":
				cl, err := parseClause(c, f[2])
				if err != nil {
					return nil, err
				}
				cl.Where = "exitassert"
				for _, n := range ns {
					curF.LoopUse[n] = append(curF.LoopUse[n], cl)
				}
			case "head", "back", "init", "exit":
				rest := strings.TrimSpace(f[2])
				rest = strings.TrimSpace(strings.TrimPrefix(rest, "use"))
				cl, err := parseClause(c, rest)
				if err != nil {
					return nil, err
				}
				cl.Where = f[1]
				for _, n := range ns {
					curF.LoopUse[n] = append(curF.LoopUse[n], cl)
				}
			default:
				return nil, errf(c, "loop: unknown kind %q", f[1])
			}
		case "use":
			// use [entry|return] L(args)   (func)   |  use L(args) (lemma)
			rest := c.rest
			where := "return"
			for _, w := range []string{"entry", "return"} {
				if strings.HasPrefix(rest, w+" ") {
					where = w
					rest = strings.TrimSpace(rest[len(w):])
				}
			}
			cl, err := parseClause(c, rest)
			if err != nil {
				return nil, err
			}
			cl.Where = where
			switch {
			case curF != nil:
				curF.Uses = append(curF.Uses, cl)
			case curL != nil:
				curL.Uses = append(curL.Uses, cl)
			default:
				return nil, errf(c, "use outside func/lemma")
			}
		case "unfold":
			e, err := ParseExpr(c.rest)
			if err != nil {
				return nil, errf(c, "%v", err)
			}
			switch {
			case curL != nil:
				curL.Unfold = append(curL.Unfold, e)
			case curF != nil:
				curF.Uses = append(curF.Uses, Clause{E: &Expr{Kind: "call", Name: "$unfold", Args: []*Expr{e}}, Where: "return", Line: c.line})
			default:
				return nil, errf(c, "unfold outside func/lemma")
			}
		case "induction":
			if curL == nil {
				return nil, errf(c, "induction outside lemma")
			}
			f := strings.SplitN(c.rest, " ", 3)
			curL.Induction = f[0]
			if len(f) == 3 && f[1] == "above" {
				e, err := ParseExpr(f[2])
				if err != nil {
					return nil, errf(c, "%v", err)
				}
				curL.Above = e
			} else if len(f) != 1 {
				return nil, errf(c, "induction VAR [above EXPR]")
			}
		case "call":
			if curF == nil {
				return nil, errf(c, "call outside func")
			}
			// call PATTERN requires EXPR   |   call PATTERN use L(args)   |   call VAR contract KEY
			if kc := strings.Index(c.rest, " contract "); kc >= 0 && !strings.Contains(c.rest[:kc], " requires ") && !strings.Contains(c.rest[:kc], " use ") {
				// calls through the function-typed variable VAR (a function value the verified function received from a callee)
				// are replaced by the contract KEY instead of being opaque; that the value satisfies KEY is an assumption
				if curF.CallSpec == nil {
					curF.CallSpec = map[string]string{}
				}
				curF.CallSpec[strings.TrimSpace(c.rest[:kc])] = qualifyFuncKey(strings.TrimSpace(c.rest[kc+len(" contract "):]), pkgPath)
				break
			}
			if ku := strings.Index(c.rest, " use "); ku >= 0 && !strings.Contains(c.rest[:ku], " requires ") {
				pat := strings.TrimSpace(c.rest[:ku])
				cl, err := parseClause(c, strings.TrimSpace(c.rest[ku+len(" use "):]))
				if err != nil {
					return nil, err
				}
				cl.Where = "use"
				curF.CallReq[pat] = append(curF.CallReq[pat], cl)
				break
			}
			k := strings.Index(c.rest, " requires ")
			if k < 0 {
				return nil, errf(c, "call PATTERN requires EXPR")
			}
			pat := strings.TrimSpace(c.rest[:k])
			cl, err := parseClause(c, strings.TrimSpace(c.rest[k+len(" requires "):]))
			if err != nil {
				return nil, err
			}
			curF.CallReq[pat] = append(curF.CallReq[pat], cl)
		case "allow":
			if curF == nil {
				return nil, errf(c, "allow outside func")
			}
			for _, a := range strings.Fields(c.rest) {
				curF.Allow[a] = true
			}
		case "structural":
			if curF == nil {
				return nil, errf(c, "structural outside func")
			}
			curF.Structural = true
		case "split":
			if curF == nil {
				return nil, errf(c, "split outside func")
			}
			if curF.SplitPosts == nil {
				curF.SplitPosts = map[string]bool{}
			}
			for _, l := range strings.Fields(strings.ReplaceAll(c.rest, ",", " ")) {
				curF.SplitPosts[l] = true
			}
		case "wired":
			if curF == nil {
				return nil, errf(c, "wired outside func")
			}
			// wired LABEL: CALLEE[#n] arg K from SOURCE
			rest := strings.TrimSpace(c.rest)
			k := strings.Index(rest, ":")
			if k < 0 {
				return nil, errf(c, "wired: expected `wired LABEL: CALLEE[#n] arg K from SOURCE`")
			}
			w := WiredClause{Label: strings.TrimSpace(rest[:k]), Nth: 1, Line: c.line}
			f := strings.Fields(rest[k+1:])
			if len(f) != 5 || f[1] != "arg" || f[3] != "from" {
				return nil, errf(c, "wired: expected `wired LABEL: CALLEE[#n] arg K from SOURCE`")
			}
			w.Callee, w.Source = f[0], f[4]
			if h := strings.Index(w.Callee, "#"); h >= 0 {
				fmt.Sscanf(w.Callee[h+1:], "%d", &w.Nth)
				w.Callee = w.Callee[:h]
			}
			if _, err := fmt.Sscanf(f[2], "%d", &w.Arg); err != nil {
				return nil, errf(c, "wired: argument index %q", f[2])
			}
			curF.Wired = append(curF.Wired, w)
		case "unreachable":
			if curF == nil {
				return nil, errf(c, "unreachable outside func")
			}
			// unreachable return: <source text of the return statement> [#k]   (k-th return statement with that text, in source order)
			curF.Unreach = append(curF.Unreach, strings.TrimSpace(strings.TrimPrefix(strings.TrimSpace(c.rest), "return:")))
		default:
			return nil, errf(c, "unknown keyword %q", c.kw)
		}
		_ = curS
	}
	return sf, nil
}

func qualifyFuncKey(key, pkgPath string) string {
	if pkgPath == "" || strings.Contains(key, "/") || strings.Contains(strings.TrimLeft(key, "(*"), ".") && !strings.HasPrefix(key, "(") {
		return key
	}
	if strings.HasPrefix(key, "(") {
		// (T).M or (*T).M
		end := strings.Index(key, ")")
		recv := key[1:end]
		if strings.Contains(recv, ".") {
			return key
		}
		star := ""
		if strings.HasPrefix(recv, "*") {
			star = "*"
			recv = recv[1:]
		}
		return "(" + star + pkgPath + "." + recv + ")" + key[end+1:]
	}
	return pkgPath + "." + key
}

// parseSig parses name(p T, q U) Ret
func parseSig(s string) (string, []Param, string, error) {
	op := strings.Index(s, "(")
	cl := strings.LastIndex(s, ")")
	if op < 0 || cl < op {
		return "", nil, "", fmt.Errorf("bad signature %q", s)
	}
	name := strings.TrimSpace(s[:op])
	var params []Param
	inner := strings.TrimSpace(s[op+1 : cl])
	if inner != "" {
		for _, p := range strings.Split(inner, ",") {
			f := strings.Fields(p)
			if len(f) != 2 {
				return "", nil, "", fmt.Errorf("bad param %q in %q", p, s)
			}
			params = append(params, Param{f[0], f[1]})
		}
	}
	return name, params, strings.TrimSpace(s[cl+1:]), nil
}

func splitTopLevel(s string, sep byte) []string {
	var out []string
	depth := 0
	start := 0
	for i := 0; i < len(s); i++ {
		switch s[i] {
		case '(', '[':
			depth++
		case ')', ']':
			depth--
		default:
			if s[i] == sep && depth == 0 {
				out = append(out, strings.TrimSpace(s[start:i]))
				start = i + 1
			}
		}
	}
	out = append(out, strings.TrimSpace(s[start:]))
	return out
}
