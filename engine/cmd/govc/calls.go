package main

// Calls: builtins, inlined closures/helpers, contract calls, opaque calls; frame obligations.

import (
	"fmt"
	"go/token"
	"go/types"
	"strings"

	"golang.org/x/tools/go/ssa"
)

// resolveCallee returns the spec key of the callee, the static callee (if any) and the closure to inline (if any).
func (fc *FuncCtx) resolveCallee(com *ssa.CallCommon, fr *Frame, st *State) (string, *ssa.Function, *Closure) {
	if com.IsInvoke() {
		return com.Method.FullName(), nil, nil
	}
	switch t := com.Value.(type) {
	case *ssa.Function:
		if t.Parent() != nil {
			return t.String(), t, &Closure{Fn: t}
		}
		key := t.String()
		if t.Origin() != nil {
			key = t.Origin().String()
		}
		return key, t, nil
	case *ssa.MakeClosure:
		cl := &Closure{Fn: t.Fn.(*ssa.Function)}
		for _, b := range t.Bindings {
			cl.Bindings = append(cl.Bindings, fc.valOfStatic(fr, b))
		}
		return cl.Fn.String(), cl.Fn, cl
	case *ssa.UnOp:
		if t.Op == token.MUL {
			if g, ok := t.X.(*ssa.Global); ok {
				return g.Pkg.Pkg.Path() + "." + g.Name(), nil, nil
			}
			// closure stored in a local variable: find the unique MakeClosure stored there
			if a, ok := t.X.(*ssa.Alloc); ok {
				if cl := fc.closureStoredIn(a, fr); cl != nil {
					return cl.Fn.String(), cl.Fn, cl
				}
			}
			if fv, ok := t.X.(*ssa.FreeVar); ok {
				if b, ok := fr.free[fv]; ok && b.Loc != nil && b.Loc.Cell != nil {
					if cl := fc.closureStoredIn(b.Loc.Cell, fc.frameOfAlloc(b.Loc.Cell, fr)); cl != nil {
						return cl.Fn.String(), cl.Fn, cl
					}
				}
			}
		}
	}
	if n := dynCalleeName(com.Value); n != "" {
		return "dynamic:" + n, nil, nil
	}
	return "dynamic:" + com.Value.Name(), nil, nil
}

// dynCalleeName gives the source-level name of the function-typed parameter, local or captured variable a dynamic
// call goes through ("" if the callee expression is anything else).
func dynCalleeName(x ssa.Value) string {
	switch t := x.(type) {
	case *ssa.Parameter:
		return t.Name()
	case *ssa.FreeVar:
		return t.Name()
	case *ssa.UnOp:
		if t.Op == token.MUL {
			switch a := t.X.(type) {
			case *ssa.Alloc:
				return a.Comment
			case *ssa.FreeVar:
				return a.Name()
			case *ssa.FieldAddr:
				// function value stored in a struct field (`evm.Context.CanTransfer(...)`): named by the field
				if st, ok := a.X.Type().Underlying().(*types.Pointer).Elem().Underlying().(*types.Struct); ok && a.Field < st.NumFields() {
					return st.Field(a.Field).Name()
				}
			}
		}
	case *ssa.Field:
		if st, ok := t.X.Type().Underlying().(*types.Struct); ok && t.Field < st.NumFields() {
			return st.Field(t.Field).Name()
		}
	}
	return ""
}

// frames of enclosing functions are needed to evaluate closure bindings statically; bindings that are
// Allocs or FreeVars resolve without a frame.
func (fc *FuncCtx) frameOfAlloc(a *ssa.Alloc, fr *Frame) *Frame { return fr }

func (fc *FuncCtx) valOfStatic(fr *Frame, x ssa.Value) Val {
	switch t := x.(type) {
	case *ssa.Alloc:
		elem := t.Type().(*types.Pointer).Elem()
		if fc.isCell(t) {
			so := fc.cellSort(t)
			return Val{Loc: &Loc{Cell: t, Sort: so, GoT: elem, RSort: so}, GoT: t.Type()}
		}
	case *ssa.FreeVar:
		if fr != nil {
			if b, ok := fr.free[t]; ok {
				return b
			}
		}
	}
	if fr != nil {
		if r, ok := fr.vals[x]; ok {
			return r
		}
	}
	return Val{}
}

func (fc *FuncCtx) closureStoredIn(a *ssa.Alloc, fr *Frame) *Closure {
	refs := a.Referrers()
	if refs == nil {
		return nil
	}
	var found *ssa.MakeClosure
	for _, r := range *refs {
		if s, ok := r.(*ssa.Store); ok && s.Addr == a {
			// the cell of a function-typed parameter of an inlined function (NaiveForm copies parameters into cells): the
			// closure the caller passed, with its bindings already evaluated in the caller's frame
			if p, isParam := s.Val.(*ssa.Parameter); isParam && found == nil && fr != nil {
				if f := fc.frameFor(p.Parent(), fr); f != nil {
					if pv, ok := f.vals[p]; ok && pv.Clo != nil {
						return pv.Clo
					}
				}
				return nil
			}
			mc, ok := s.Val.(*ssa.MakeClosure)
			if !ok || found != nil {
				return nil
			}
			found = mc
		}
	}
	if found == nil {
		return nil
	}
	cl := &Closure{Fn: found.Fn.(*ssa.Function)}
	// bindings are evaluated in the frame of the function that contains the MakeClosure
	for _, b := range found.Bindings {
		cl.Bindings = append(cl.Bindings, fc.valOfStatic(fc.frameFor(found.Parent(), fr), b))
	}
	return cl
}

func (fc *FuncCtx) frameFor(fn *ssa.Function, fr *Frame) *Frame {
	for f := fr; f != nil; f = f.parent {
		if f.fn == fn {
			return f
		}
	}
	return fr
}

func (fc *FuncCtx) calleeParams(com *ssa.CallCommon, spec *FuncSpec) ([]string, []types.Type) {
	var sig *types.Signature
	if com.IsInvoke() {
		sig = com.Method.Type().(*types.Signature)
		names, tys := sigParams(sig)
		// receiver type of interface methods: the interface value (the unboxed receiver inside a dispatch branch)
		if len(tys) > 0 {
			tys[0] = com.Value.Type()
			if fc.dispatchRecv != nil {
				tys[0] = fc.dispatchRecv
			}
		}
		if spec != nil && len(spec.ParamNames) == len(names) {
			names = spec.ParamNames
		}
		return names, tys
	}
	if fn, ok := com.Value.(*ssa.Function); ok {
		sig = fn.Signature
		if fn.Origin() != nil {
			sig = fn.Signature
		}
	} else {
		sig = com.Signature()
	}
	names, tys := sigParams(sig)
	if spec != nil && len(spec.ParamNames) > 0 {
		if len(spec.ParamNames) != len(names) {
			unsupported("spec %s: params clause has %d names, callee has %d", spec.Key, len(spec.ParamNames), len(names))
		}
		names = spec.ParamNames
	}
	return names, tys
}

func (fc *FuncCtx) execCall(fr *Frame, st *State, com *ssa.CallCommon, ins ssa.Instruction) Val {
	v := fc.v
	if b, ok := com.Value.(*ssa.Builtin); ok {
		return fc.execBuiltin(fr, st, b, com, ins)
	}
	key, callee, clo := fc.resolveCallee(com, fr, st)
	if clo == nil && !com.IsInvoke() {
		// dynamic value that evaluates to a closure
		if _, isFn := com.Value.(*ssa.Function); !isFn {
			if val, ok := fr.vals[com.Value]; ok && val.Clo != nil {
				clo = val.Clo
				key = clo.Fn.String()
			}
		}
	}
	var args []Val
	for _, a := range fc.allArgs(com) {
		args = append(args, fc.valOf(fr, a))
	}
	if clo != nil {
		return fc.inline(fr, st, clo.Fn, args, clo.Bindings, ins.Pos())
	}
	spec := v.specFor(key)
	if spec == nil && !com.IsInvoke() {
		if ds := fc.dynCallSpec(key); ds != nil {
			// `call VAR contract KEY` of the caller's contract: the function value is assumed to satisfy KEY; call-site
			// clauses match the variable name as for any other dynamic call
			return fc.contractCall(fr, st, com, strings.TrimPrefix(key, "dynamic:"), ds, args, ins)
		}
	}
	if spec != nil && spec.Model != "" {
		// `model F`: the call executes the body of the Go function F in place (an assumed executable model of a callee whose
		// body is not loaded); loops and closures inside it are treated exactly as in an `inline` callee
		mf := fc.modelFunc(key, spec, len(args))
		v.inlined[key+" (model "+spec.Model+")"] = true
		if spec.Lib {
			v.usedLibSpecs[key] = true
		}
		return fc.inline(fr, st, mf, args, nil, ins.Pos())
	}
	if spec != nil && spec.Inline {
		if callee == nil || len(callee.Blocks) == 0 {
			unsupported("inline %s: no body available (package not loaded with syntax?)", key)
		}
		v.inlined[key] = true
		res := fc.inline(fr, st, callee, args, nil, ins.Pos())
		fc.recordInlinedResults(key, res)
		return res
	}
	// a closure handed to code that is not executed in place (contract / opaque call) may be run by it any number of times:
	// the captured variables it can write are unknown afterwards
	if spec == nil || !(spec.Pure || spec.Def != nil) {
		fc.havocCaptured(st, args, 0)
	}
	if spec == nil || spec.Opaque {
		return fc.opaqueCall(fr, st, com, key, args, ins)
	}
	if len(spec.Dispatch) > 0 {
		return fc.dispatchCall(fr, st, com, key, spec, args, ins)
	}
	return fc.contractCall(fr, st, com, key, spec, args, ins)
}

// recordInlinedResults makes the results of a call of an `inline` callee available as ret(Callee, n, i), exactly like the
// results of contract and opaque calls (the clauses of the enclosing function cannot name the locals the results are
// assigned to in an `ensures`).
func (fc *FuncCtx) recordInlinedResults(key string, res Val) {
	cshort := shortFuncName(key)
	fc.callCount[cshort]++
	var rsv []SV
	if res.Tuple != nil {
		for _, r := range res.Tuple {
			if r.T == nil {
				return
			}
			rsv = append(rsv, SV{T: r.T, GoT: r.GoT})
		}
	} else if res.T != nil {
		rsv = append(rsv, SV{T: res.T, GoT: res.GoT})
	}
	if len(rsv) > 0 {
		fc.callResults[fmt.Sprintf("%s#%d", cshort, fc.callCount[cshort])] = rsv
	}
}

// havocCaptured forgets the value of every captured variable that a closure among args (or a closure it captures) may write:
// any use of the free variable other than a plain load counts as a write.
func (fc *FuncCtx) havocCaptured(st *State, args []Val, depth int) {
	if depth > 4 {
		return
	}
	for _, a := range args {
		if a.Clo == nil {
			continue
		}
		fn := a.Clo.Fn
		for i, b := range a.Clo.Bindings {
			if b.Clo != nil {
				fc.havocCaptured(st, []Val{b}, depth+1)
				continue
			}
			if i >= len(fn.FreeVars) || b.Loc == nil || b.Loc.Root != nil {
				continue
			}
			written := false
			if refs := fn.FreeVars[i].Referrers(); refs != nil {
				for _, r := range *refs {
					switch t := r.(type) {
					case *ssa.DebugRef:
					case *ssa.UnOp:
						if t.Op != token.MUL {
							written = true
						}
					default:
						written = true
					}
				}
			}
			if written {
				fc.v.store(st, b.Loc, fc.v.c.Fresh("havoc_captured", b.Loc.Sort))
			}
		}
	}
}

// dispatchCall: a call through an interface method whose contract is `dispatch (T1).M, (T2).M, ...`. The call site must
// prove that the dynamic type of the receiver is one of T1..Tn (obligation #callN[..].pre.dispatch: no closed-world
// assumption is made); the effect is the case split over the contracts of the implementations, each applied to the
// unboxed receiver. Every implementation must be verified in the same configuration (checked in main).
func (fc *FuncCtx) dispatchCall(fr *Frame, st *State, com *ssa.CallCommon, key string, spec *FuncSpec, args []Val, ins ssa.Instruction) Val {
	v := fc.v
	c := v.c
	if !com.IsInvoke() || len(args) == 0 {
		unsupported("dispatch contract %s used for a call that is not an interface method call", key)
	}
	x := v.asTerm(st, args[0])
	type impl struct {
		spec   *FuncSpec
		recvT  types.Type
		viaPtr bool // the interface holds *T, the method is declared on T (Go's implicit (*T).M wrapper: load *p, call (T).M)
	}
	var impls []impl
	var alts []*Term
	for _, k := range spec.Dispatch {
		target := v.specs[k]
		viaPtr := false
		if target == nil && strings.HasPrefix(k, "(*") {
			// `dispatch (*T).M` where M is declared with a value receiver: the contract of (T).M applied to the pointee
			if t2 := v.specs["("+k[2:]]; t2 != nil {
				if tf2, err := v.lookupFunc("(" + k[2:]); err == nil {
					if r := tf2.Type().(*types.Signature).Recv(); r != nil && pointee(r.Type()) == nil {
						target, viaPtr, k = t2, true, "("+k[2:]
					}
				}
			}
		}
		if target == nil || target.SameAs != "" || len(target.Dispatch) > 0 || target.Opaque || (target.Inline && viaPtr) {
			unsupported("%s: dispatch %s: target must be a plain contract (or an inline method)", key, k)
		}
		tf, err := v.lookupFunc(k)
		if err != nil {
			unsupported("%s: dispatch: %v", key, err)
		}
		sig := tf.Type().(*types.Signature)
		if sig.Recv() == nil {
			unsupported("%s: dispatch %s: not a method", key, k)
		}
		cp := *target
		if len(cp.ParamNames) == 0 {
			cp.ParamNames, _ = sigParams(sig)
		}
		impls = append(impls, impl{&cp, sig.Recv().Type(), viaPtr})
		if viaPtr {
			alts = append(alts, c.Eq(c.UF("typeof", SInt, x), v.typeTag(types.NewPointer(sig.Recv().Type()))))
		} else {
			alts = append(alts, c.Eq(c.UF("typeof", SInt, x), v.typeTag(sig.Recv().Type())))
		}
		if v.dispatchUsed == nil {
			v.dispatchUsed = map[string]string{}
		}
		if !target.Inline {
			v.dispatchUsed[k] = key
		}
	}
	cshort := shortFuncName(key)
	fc.callCount[cshort]++
	goal := c.And(c.Not(c.Eq(x, c.Int(0))), c.Or(alts...))
	v.addObligation(&Obligation{Name: fmt.Sprintf("%s#call%d[%s].pre.dispatch", fc.short, fc.callCount[cshort], cshort), Kind: "pre", Func: fc.key,
		Pos: v.fset.Position(ins.Pos()).String(), Assume: st.pc, Goal: goal, Expect: "unsat", Src: "dynamic type of the receiver is one of the dispatch targets"})
	st.assume(c, goal)
	var sts []*State
	var vals []Val
	for i, im := range impls {
		bs := st.clone()
		bs.assume(c, alts[i])
		so := v.tm.SortOf(im.recvT)
		var bargs []Val
		if im.viaPtr {
			pt := types.NewPointer(im.recvT)
			pso := v.tm.SortOf(pt)
			name := "un" + boxName(pt)
			c.DeclareFun(name, []*Sort{SInt}, pso)
			p := c.App(name, pso, x)
			fc.safety(bs, "nil", c.Not(c.Eq(p, c.Int(0))), ins.Pos(), "pointer receiver of a value-receiver method reached through an interface is not nil")
			bs.assume(c, c.Not(c.Eq(p, c.Int(0))))
			sv := v.load(bs, &Loc{Ref: p, HeapKey: v.heapKeyFor(im.recvT), Sort: so, GoT: im.recvT, RSort: so})
			bargs = append([]Val{{T: sv, GoT: im.recvT}}, args[1:]...)
		} else {
			name := "un" + boxName(im.recvT)
			c.DeclareFun(name, []*Sort{SInt}, so)
			bargs = append([]Val{{T: c.App(name, so, x), GoT: im.recvT}}, args[1:]...)
		}
		var r Val
		if im.spec.Inline {
			// an `inline` implementation is executed in place on the unboxed receiver
			fn := v.findFunction(im.spec.Key)
			if fn == nil || len(fn.Blocks) == 0 {
				unsupported("%s: dispatch to inline %s: no body available", key, im.spec.Key)
			}
			v.inlined[im.spec.Key] = true
			r = fc.inline(fr, bs, fn, bargs, nil, ins.Pos())
		} else {
			fc.dispatchRecv = im.recvT
			r = fc.contractCall(fr, bs, com, im.spec.Key, im.spec, bargs, ins)
			fc.dispatchRecv = nil
		}
		if bs.dead {
			continue
		}
		sts = append(sts, bs)
		vals = append(vals, r)
	}
	if len(sts) == 0 {
		st.dead = true
		return Val{}
	}
	m, rests := v.mergeStates(sts)
	*st = *m
	merge := func(get func(i int) Val) Val {
		last := get(len(sts) - 1)
		if last.T == nil {
			return last
		}
		t := last.T
		for i := len(sts) - 2; i >= 0; i-- {
			t = c.Ite(rests[i], get(i).T, t)
		}
		return Val{T: t, GoT: last.GoT}
	}
	if len(vals[0].Tuple) > 0 {
		var tup []Val
		for k := range vals[0].Tuple {
			k := k
			tup = append(tup, merge(func(i int) Val { return vals[i].Tuple[k] }))
		}
		return Val{Tuple: tup}
	}
	if vals[0].T == nil {
		return Val{}
	}
	return merge(func(i int) Val { return vals[i] })
}

// modelFunc resolves the Go function named by a `model` clause.
func (fc *FuncCtx) modelFunc(key string, spec *FuncSpec, nargs int) *ssa.Function {
	v := fc.v
	mf := v.findFunction(spec.Model)
	if mf == nil || len(mf.Blocks) == 0 {
		unsupported("model %s of %s: function not found in the loaded packages (or it has no body)", spec.Model, key)
	}
	if len(mf.Params) != nargs {
		unsupported("model %s of %s: %d parameters for %d arguments (receiver first)", spec.Model, key, len(mf.Params), nargs)
	}
	v.notes[fmt.Sprintf("%s: calls execute the assumed model %s", key, spec.Model)] = true
	return mf
}

func (fc *FuncCtx) inline(fr *Frame, st *State, fn *ssa.Function, args []Val, bindings []Val, pos token.Pos) Val {
	if fc.depth > 12 {
		unsupported("inline depth exceeded at %s", fn.Name())
	}
	if len(fn.Blocks) == 0 {
		unsupported("cannot inline %s: no body", fn.String())
	}
	nfr := &Frame{fn: fn, vals: map[ssa.Value]Val{}, free: map[*ssa.FreeVar]Val{}, fc: fc, parent: fr}
	if len(args) != len(fn.Params) {
		unsupported("inline %s: %d args for %d params", fn.Name(), len(args), len(fn.Params))
	}
	for i, p := range fn.Params {
		nfr.vals[p] = args[i]
	}
	for i, fv := range fn.FreeVars {
		if i >= len(bindings) || (bindings[i].Loc == nil && bindings[i].T == nil && bindings[i].Clo == nil) {
			unsupported("inline %s: free variable %s is not bound", fn.Name(), fv.Name())
		}
		nfr.free[fv] = bindings[i]
	}
	fc.depth++
	rets := fc.execFunc(nfr, st.clone())
	fc.depth--
	if len(rets) == 0 {
		st.dead = true
		return Val{}
	}
	final, results := fc.mergeReturns(fn, rets)
	*st = *final
	// Go maps are references: updates the inlined body makes through a map-typed parameter are visible to the caller.
	// The map model binds a map value to the variable it was loaded from, so the final value of the callee's parameter
	// variable is written back to the location the argument was loaded from.
	for i, cell := range mapParamsUpdated(fn) {
		if i >= len(args) {
			continue
		}
		if args[i].Origin == nil {
			unsupported("inline %s: map argument %d is updated by the callee but has no variable origin in the caller", fn.Name(), i)
		}
		if t, ok := st.cells[cell]; ok && !st.dead {
			fc.v.store(st, args[i].Origin, t)
		}
	}
	switch len(results) {
	case 0:
		return Val{}
	case 1:
		return results[0]
	}
	return Val{Tuple: results}
}

// mapParamsUpdated: map-typed parameters of fn whose map is updated (m[k] = v, delete(m, k)) in fn's own body, with the
// local cell go/ssa (NaiveForm) keeps the parameter in. A parameter that is also reassigned is not supported.
func mapParamsUpdated(fn *ssa.Function) map[int]*ssa.Alloc {
	out := map[int]*ssa.Alloc{}
	for i, p := range fn.Params {
		if _, isMap := p.Type().Underlying().(*types.Map); !isMap {
			continue
		}
		var cell *ssa.Alloc
		stores := 0
		for _, b := range fn.Blocks {
			for _, ins := range b.Instrs {
				if s, ok := ins.(*ssa.Store); ok && s.Val == ssa.Value(p) {
					if a, ok := s.Addr.(*ssa.Alloc); ok {
						cell = a
					}
				}
			}
		}
		if cell == nil {
			continue
		}
		updated := false
		fromCell := func(x ssa.Value) bool {
			u, ok := x.(*ssa.UnOp)
			return ok && u.Op == token.MUL && u.X == ssa.Value(cell)
		}
		for _, b := range fn.Blocks {
			for _, ins := range b.Instrs {
				switch t := ins.(type) {
				case *ssa.Store:
					if t.Addr == ssa.Value(cell) {
						stores++
					}
				case *ssa.MapUpdate:
					if fromCell(t.Map) {
						updated = true
					}
				case ssa.CallInstruction:
					if bi, ok := t.Common().Value.(*ssa.Builtin); ok && bi.Name() == "delete" && fromCell(t.Common().Args[0]) {
						updated = true
					}
				}
			}
		}
		if !updated {
			continue
		}
		if stores != 1 {
			unsupported("%s: map parameter %s is both updated and reassigned", fn.Name(), p.Name())
		}
		out[i] = cell
	}
	return out
}

// ------------------------------------------------------------ builtins

func (fc *FuncCtx) execBuiltin(fr *Frame, st *State, b *ssa.Builtin, com *ssa.CallCommon, ins ssa.Instruction) Val {
	v := fc.v
	c := v.c
	arg := func(i int) *Term { return v.asTerm(st, fc.valOf(fr, com.Args[i])) }
	switch b.Name() {
	case "ssa:deferstack":
		return Val{T: c.Int(0)}
	case "recover":
		// the value a deferred function recovers: any interface value (nil = no panic in flight); nameable as ret(recover, n, 0)
		t := c.Fresh("recover", SInt)
		st.assume(c, c.Cmp(">=", t, c.Int(0)))
		fc.callCount["recover"]++
		fc.callResults[fmt.Sprintf("recover#%d", fc.callCount["recover"])] = []SV{{T: t, GoT: com.Signature().Results().At(0).Type()}}
		return Val{T: t, GoT: com.Signature().Results().At(0).Type()}
	case "len":
		x := arg(0)
		switch {
		case isSliceSort(x.Sort):
			return Val{T: c.FieldOf(x, 1), GoT: types.Typ[types.Int]}
		case x.Sort == v.tm.SStr:
			l := c.UF("str_len", SInt, x)
			st.assume(c, c.Cmp(">=", l, c.Int(0)))
			return Val{T: l, GoT: types.Typ[types.Int]}
		case x.Sort.Kind == KArray:
			if at, ok := com.Args[0].Type().Underlying().(*types.Array); ok {
				return Val{T: c.Int(at.Len()), GoT: types.Typ[types.Int]}
			}
		}
		if at, ok := v.tm.abstract[typeKey(com.Args[0].Type())]; ok && at.SeqLen != "" {
			l := c.App(at.SeqLen, SInt, x)
			st.assume(c, c.Cmp(">=", l, c.Int(0)))
			return Val{T: l, GoT: types.Typ[types.Int]}
		}
		// abstract list types: length through a spec function lenOf_<sort> if declared
		if sf, ok := v.specFuncs["len_"+sanitize(x.Sort.Name)]; ok {
			env := &Env{v: v, vars: map[string]SV{}, st: st}
			sv, err := env.applySpecFunc(sf, []SV{{T: x}})
			if err != nil {
				panic(specError{err.Error()})
			}
			return Val{T: sv.T, GoT: types.Typ[types.Int]}
		}
		l := c.UF("len_"+sanitize(x.Sort.Name), SInt, x)
		st.assume(c, c.Cmp(">=", l, c.Int(0)))
		return Val{T: l, GoT: types.Typ[types.Int]}
	case "cap":
		x := arg(0)
		if isSliceSort(x.Sort) {
			k := c.UF("cap_"+sanitize(x.Sort.Name), SInt, x)
			st.assume(c, c.Cmp(">=", k, c.FieldOf(x, 1)))
			return Val{T: k, GoT: types.Typ[types.Int]}
		}
	case "append":
		s := arg(0)
		if len(com.Args) == 1 {
			return Val{T: s, GoT: com.Args[0].Type()}
		}
		t := arg(1)
		if !isSliceSort(s.Sort) {
			// abstract list: append(l, elems...) where the second operand is also an abstract list of the same sort
			if at, ok := v.tm.abstract[typeKey(com.Args[0].Type())]; ok && at.ListNil != "" && t.Sort == s.Sort {
				if sf, ok := v.specFuncs["append_"+sanitize(s.Sort.Name)]; ok {
					env := &Env{v: v, vars: map[string]SV{}, st: st}
					sv, err := env.applySpecFunc(sf, []SV{{T: s}, {T: t}})
					if err != nil {
						panic(specError{err.Error()})
					}
					return Val{T: sv.T, GoT: com.Args[0].Type()}
				}
			}
			unsupported("append on abstract value of sort %s", s.Sort.Name)
		}
		if t.Sort != s.Sort {
			// concrete slice (a `rawslice` variable) extended by a variadic argument list whose type is mapped to an
			// abstract list sort: take the elements from the argument array itself
			if sl, ok := com.Args[1].(*ssa.Slice); ok && sl.Low == nil && sl.High == nil && sl.Max == nil {
				if pt, ok := sl.X.Type().Underlying().(*types.Pointer); ok {
					if at, ok := pt.Elem().Underlying().(*types.Array); ok && v.tm.SortOf(at.Elem()) == s.Sort.Fields[0].Sort.Elem {
						arr := v.load(st, fc.asLoc(fr, st, sl.X, ins.Pos()))
						t = c.Ctor(s.Sort, arr, c.Int(at.Len()))
					}
				}
			}
		}
		if t.Sort != s.Sort {
			unsupported("append: operand sorts differ (%s, %s)", s.Sort.Name, t.Sort.Name)
		}
		fc.checkAppendDiscipline(fr, com, ins)
		n := c.FieldOf(s, 1)
		tl := c.FieldOf(t, 1)
		ta := c.FieldOf(t, 0)
		var arr *Term
		if tl.Op == "int" && tl.IntVal.IsInt64() && tl.IntVal.Int64() <= 4 {
			arr = c.FieldOf(s, 0)
			for i := int64(0); i < tl.IntVal.Int64(); i++ {
				arr = c.Store(arr, c.Arith("+", n, c.Int(i)), c.Select(ta, c.Int(i)))
			}
		} else {
			arr = v.catArr(c.FieldOf(s, 0), n, ta)
		}
		return Val{T: c.Ctor(s.Sort, arr, c.Arith("+", n, tl)), GoT: com.Args[0].Type()}
	case "copy":
		dv := fc.valOf(fr, com.Args[0])
		d := v.asTerm(st, dv)
		s := arg(1)
		if !isSliceSort(d.Sort) || d.Sort != s.Sort {
			unsupported("copy on sorts %s, %s", d.Sort.Name, s.Sort.Name)
		}
		org := dv.Origin
		off := c.Int(0)
		if org == nil {
			// copy(x[lo:hi], src): the destination is a sub-slice of a variable; write through to that variable at offset lo
			if sl, ok := com.Args[0].(*ssa.Slice); ok {
				if base := fc.valOf(fr, sl.X); base.Origin != nil && base.Origin.Root == nil {
					org = base.Origin
					if sl.Low != nil {
						off = v.asTerm(st, fc.valOf(fr, sl.Low))
					}
				}
			}
		}
		if org == nil || org.Root != nil {
			unsupported("copy into a slice that was not loaded from a variable")
		}
		cur := v.load(st, org)
		dl, sl := c.FieldOf(d, 1), c.FieldOf(s, 1)
		n := c.Ite(c.Cmp("<=", dl, sl), dl, sl)
		fc.noteParamMutation(org.extend(PathElem{Field: -1, Idx: c.Int(0), Slice: true}, nil, nil))
		srcArr := c.FieldOf(s, 0)
		if off.Op == "int" && off.IntVal.Sign() == 0 {
			v.store(st, org, c.Ctor(cur.Sort, v.spliceArr(c.FieldOf(cur, 0), srcArr, n), c.FieldOf(cur, 1)))
		} else {
			v.store(st, org, c.Ctor(cur.Sort, v.spliceOffArr(c.FieldOf(cur, 0), srcArr, off, n), c.FieldOf(cur, 1)))
		}
		return Val{T: n, GoT: types.Typ[types.Int]}
	case "min", "max":
		r := arg(0)
		for i := 1; i < len(com.Args); i++ {
			y := arg(i)
			if b.Name() == "min" {
				r = c.Ite(c.Cmp("<=", r, y), r, y)
			} else {
				r = c.Ite(c.Cmp(">=", r, y), r, y)
			}
		}
		return Val{T: r, GoT: com.Args[0].Type()}
	case "delete":
		mv := fc.valOf(fr, com.Args[0])
		if mv.Origin == nil {
			unsupported("delete on a map value without a variable origin")
		}
		m := v.load(st, mv.Origin)
		k := arg(1)
		v.store(st, mv.Origin, c.Ctor(m.Sort, c.Store(c.FieldOf(m, 0), k, c.Bool(false)), c.FieldOf(m, 1)))
		return Val{}
	case "print", "println":
		return Val{}
	}
	unsupported("builtin %s", b.Name())
	return Val{}
}

// checkAppendDiscipline: value semantics for slices is exact only when the appended-to slice value is dead
// afterwards; the usual `x = append(x, ...)` shape is checked syntactically, anything else is recorded.
func (fc *FuncCtx) checkAppendDiscipline(fr *Frame, com *ssa.CallCommon, ins ssa.Instruction) {
	call, ok := ins.(*ssa.Call)
	if !ok {
		return
	}
	src := com.Args[0]
	okShape := false
	if u, isLoad := src.(*ssa.UnOp); isLoad && u.Op == token.MUL {
		if refs := call.Referrers(); refs != nil {
			for _, r := range *refs {
				if s, isStore := r.(*ssa.Store); isStore && s.Val == call && s.Addr == u.X {
					okShape = true
				}
			}
		}
	}
	if u, isLoad := src.(*ssa.UnOp); isLoad && u.Op == token.MUL && okShape {
		// x = append(x, ...) where x is elsewhere assigned a re-slice of a slice (x = y[a:b], typically x = x[:0] to reuse the
		// buffer): the append then writes into a backing array that other slice values still share. Slices are values in this
		// model, so the overwrite would go unnoticed - refuse instead of proving something about different code.
		if a, isAlloc := u.X.(*ssa.Alloc); isAlloc {
			if refs := a.Referrers(); refs != nil {
				for _, r := range *refs {
					if s, isStore := r.(*ssa.Store); isStore && s.Addr == a {
						if sl, isSl := s.Val.(*ssa.Slice); isSl {
							if _, ofSlice := sl.X.Type().Underlying().(*types.Slice); ofSlice {
								unsupported("append to %s, which is also assigned a re-slice of a slice (%s): shared backing arrays are not modelled", a.Comment, fc.v.fset.Position(s.Pos()))
							}
						}
					}
				}
			}
		}
	}
	if sl, isSl := src.(*ssa.Slice); isSl {
		if _, ofSlice := sl.X.Type().Underlying().(*types.Slice); ofSlice {
			// append(y[a:b], ...) overwrites y's elements behind b in place
			unsupported("append to a re-slice of a slice at %s: shared backing arrays are not modelled", fc.v.fset.Position(ins.Pos()))
		}
	}
	if _, isMk := src.(*ssa.MakeSlice); isMk {
		okShape = true
	}
	if k, isConst := src.(*ssa.Const); isConst && k.Value == nil {
		okShape = true
	}
	if !okShape {
		fc.v.notes[fmt.Sprintf("%s: append at %s is not of the shape x = append(x, ...): aliasing through shared backing arrays is not modelled", fc.key, fc.v.fset.Position(ins.Pos()))] = true
	}
}

// ------------------------------------------------------------ opaque calls

func (fc *FuncCtx) freshResults(st *State, com *ssa.CallCommon, key string) Val {
	v := fc.v
	res := com.Signature().Results()
	mk := func(i int) Val {
		gt := res.At(i).Type()
		t := v.c.Fresh("ret_"+sanitize(shortFuncName(key)), v.tm.SortOf(gt))
		v.assumeTyped(st, t, gt, nil)
		return Val{T: t, GoT: gt}
	}
	switch res.Len() {
	case 0:
		return Val{}
	case 1:
		return mk(0)
	}
	var tup []Val
	for i := 0; i < res.Len(); i++ {
		tup = append(tup, mk(i))
	}
	return Val{Tuple: tup}
}

// dynCallSpec: the contract that the verified function's `call VAR contract KEY` clause assigns to calls through the
// function-typed variable VAR (nil if there is none). Recorded in the evidence notes: it is an assumption.
func (fc *FuncCtx) dynCallSpec(key string) *FuncSpec {
	if fc.spec == nil || !strings.HasPrefix(key, "dynamic:") {
		return nil
	}
	name := strings.TrimPrefix(key, "dynamic:")
	target, ok := fc.spec.CallSpec[name]
	if !ok {
		return nil
	}
	ts := fc.v.specFor(target)
	if ts == nil || ts.Inline || ts.Opaque || len(ts.Dispatch) > 0 || ts.Pure || ts.Def != nil {
		unsupported("call %s contract %s: no plain contract with that key", name, target)
	}
	if ts.Lib {
		fc.v.usedLibSpecs[target] = true
	}
	fc.v.notes[fmt.Sprintf("%s: calls through the function value %s are assumed to satisfy the contract of %s", fc.key, name, target)] = true
	return ts
}

func (fc *FuncCtx) opaqueCall(fr *Frame, st *State, com *ssa.CallCommon, key string, args []Val, ins ssa.Instruction) Val {
	v := fc.v
	c := v.c
	m := v.opaqueCalls[fc.key]
	if m == nil {
		m = map[string]int{}
		v.opaqueCalls[fc.key] = m
	}
	m[key]++
	// call-site clauses of the caller's contract also apply to calls without a contract: static callees by their short
	// name, calls through a function-typed parameter / local / captured variable by the name of that variable
	if fc.spec != nil && len(fc.spec.CallReq) > 0 {
		cshort := shortFuncName(key)
		if strings.HasPrefix(key, "dynamic:") {
			cshort = strings.TrimPrefix(key, "dynamic:")
		}
		fc.callCount[cshort]++
		env := fc.env(st, fc.entry)
		names, tys := fc.calleeParams(com, nil)
		env.calleeVars = map[string]bool{}
		for i := range args {
			if i < len(names) && args[i].T != nil {
				env.vars[names[i]] = SV{T: args[i].T, GoT: tys[i]}
				env.calleeVars[names[i]] = true
			}
		}
		fc.callSiteClauses(st, env, cshort, fc.callCount[cshort], ins, nil)
	}
	for w := range v.worlds {
		st.globals[w] = c.Fresh("havoc_"+w, v.worlds[w])
	}
	for i, a := range fc.allArgs(com) {
		for _, hk := range fc.reachableHeaps(argStaticType(a)) {
			st.globals[hk] = c.Fresh("havoc_"+hk, v.globalSort(hk))
		}
		if args[i].Loc != nil && args[i].Loc.Root == nil && !(args[i].Loc.Ref != nil && len(args[i].Loc.Path) == 0) {
			// address of a local / interior pointer escapes to unknown code: havoc the addressed value
			v.store(st, args[i].Loc, c.Fresh("havoc_arg", args[i].Loc.Sort))
		}
	}
	// a pointer boxed into an interface argument (abi.Arguments.Copy(&input, ...)) reaches the unknown code as well
	for _, a := range fc.allArgs(com) {
		mi, ok := a.(*ssa.MakeInterface)
		if !ok {
			continue
		}
		if _, isPtr := mi.X.Type().Underlying().(*types.Pointer); !isPtr {
			continue
		}
		for _, hk := range fc.reachableHeaps(mi.X.Type()) {
			st.globals[hk] = c.Fresh("havoc_"+hk, v.globalSort(hk))
		}
		if in := fc.valOf(fr, mi.X); in.Loc != nil && in.Loc.Root == nil && !(in.Loc.Ref != nil && len(in.Loc.Path) == 0) {
			v.store(st, in.Loc, c.Fresh("havoc_arg", in.Loc.Sort))
		}
	}
	old := v.getGlobal(st, "$alloc")
	na := c.Fresh("alloc", SInt)
	st.globals["$alloc"] = na
	st.assume(c, c.Cmp(">=", na, old))
	res := fc.freshResults(st, com, key)
	// results of calls without a contract can be named by ret(Callee, n, i) as well
	{
		cshort := shortFuncName(key)
		if strings.HasPrefix(key, "dynamic:") {
			cshort = strings.TrimPrefix(key, "dynamic:")
		}
		ord := fc.callCount[cshort]
		if fc.spec == nil || len(fc.spec.CallReq) == 0 {
			fc.callCount[cshort]++
			ord = fc.callCount[cshort]
		}
		var rsv []SV
		if res.Tuple != nil {
			for _, r := range res.Tuple {
				rsv = append(rsv, SV{T: r.T, GoT: r.GoT})
			}
		} else if res.T != nil {
			rsv = append(rsv, SV{T: res.T, GoT: res.GoT})
		}
		fc.callResults[fmt.Sprintf("%s#%d", cshort, ord)] = rsv
	}
	return res
}

// argStaticType: the type whose reachable heaps an unknown callee may write through argument a. A pointer boxed into an
// interface value right at the call (`f(&x)` with an interface{} parameter, e.g. abi.UnpackIntoInterface(&out, ...)) is
// still a pointer the callee can write through.
func argStaticType(a ssa.Value) types.Type {
	if mi, ok := a.(*ssa.MakeInterface); ok {
		return mi.X.Type()
	}
	return a.Type()
}

// ------------------------------------------------------------ contract calls

func (fc *FuncCtx) argTerm(st *State, a Val, borrow *[]func(post *State)) *Term {
	v := fc.v
	if a.T != nil {
		return a.T
	}
	if a.Clo != nil {
		return v.asTerm(st, a)
	}
	if a.Loc != nil {
		if a.Loc.Ref != nil && len(a.Loc.Path) == 0 {
			return a.Loc.Ref
		}
		if a.Loc.Root != nil {
			unsupported("address of a read-only value passed to a call")
		}
		// borrow: materialise the addressed value in a temporary heap object, write back afterwards
		loc := a.Loc
		if loc.GoT == nil {
			unsupported("borrowed location without Go type")
		}
		ref := v.newRef(st)
		hk := v.heapKeyFor(loc.GoT)
		st.globals[hk] = v.c.Store(v.getGlobal(st, hk), ref, v.load(st, loc))
		*borrow = append(*borrow, func(post *State) {
			v.store(post, loc, v.c.Select(v.getGlobal(post, hk), ref))
		})
		return ref
	}
	unsupported("cannot pass value to call")
	return nil
}

func (fc *FuncCtx) contractCall(fr *Frame, st *State, com *ssa.CallCommon, key string, spec *FuncSpec, args []Val, ins ssa.Instruction) Val {
	v := fc.v
	c := v.c
	if _, own := v.specs[key]; spec.Lib && own {
		v.usedLibSpecs[key] = true
	}
	names, tys := fc.calleeParams(com, spec)
	if len(names) != len(args) {
		unsupported("call %s: %d args for %d params", key, len(args), len(names))
	}
	var borrows []func(post *State)
	env := fc.env(st, fc.entry)
	argTerms := make([]*Term, len(args))
	for i := range args {
		argTerms[i] = fc.argTerm(st, args[i], &borrows)
		want := v.tm.SortOf(tys[i])
		if argTerms[i].Sort != want && isSliceSort(argTerms[i].Sort) && !isSliceSort(want) {
			// a list built element by element as a concrete slice (`rawslice`) passed where the abstract list sort is expected:
			// the abstract value is the uninterpreted fromraw_<sort>(slice), exactly as for a store into a field (state.go)
			for _, at := range v.tm.abstract {
				if at.Sort == want && at.ListNil != "" {
					v.notes["a rawslice value passed as an argument of abstract list sort "+want.Name+" is read as the uninterpreted value fromraw(slice)"] = true
					argTerms[i] = c.UF("fromraw_"+sanitize(want.Name), want, argTerms[i])
					break
				}
			}
		}
		if argTerms[i].Sort != want {
			unsupported("call %s: argument %s has sort %s, expected %s", key, names[i], argTerms[i].Sort.Name, want.Name)
		}
		env.vars[names[i]] = SV{T: argTerms[i], GoT: tys[i]}
		if env.calleeVars == nil {
			env.calleeVars = map[string]bool{}
		}
		env.calleeVars[names[i]] = true
	}
	cshort := shortFuncName(key)
	fc.callCount[cshort]++
	ord := fc.callCount[cshort]
	// lemma instances requested by the caller's contract for this call site (used for this call's obligations only)
	var hints []*Term
	var patKeys []string
	for pat := range fc.spec.CallReq {
		patKeys = append(patKeys, pat)
	}
	sortStrings(patKeys)
	for _, pat := range patKeys {
		if !matchCallPattern(pat, cshort, ord) {
			continue
		}
		for _, cl := range fc.spec.CallReq[pat] {
			if cl.Where == "use" {
				t, err := v.useTerm(env.withState(st), cl.E)
				if err != nil {
					panic(specError{fmt.Sprintf("call %s use (line %d): %v", pat, cl.Line, err)})
				}
				hints = append(hints, t)
			}
		}
	}
	withHints := func(pc []*Term) []*Term {
		if len(hints) == 0 {
			return pc
		}
		return append(append([]*Term{}, pc...), hints...)
	}
	// the caller's own clauses for this call come first: once proved they are cuts and may discharge callee preconditions
	fc.callSiteClauses(st, env, cshort, ord, ins, hints)
	// callee preconditions
	calleeEnv := &Env{v: v, vars: env.vars, lets: map[string]string{}, st: st, old: st}
	for _, l := range spec.Lets {
		calleeEnv.lets[l.Name] = l.Type
	}
	for i, r := range spec.Requires {
		t, err := calleeEnv.EvalBool(r.E)
		if err != nil {
			panic(specError{fmt.Sprintf("requires of %s (line %d): %v", key, r.Line, err)})
		}
		label := r.Label
		if label == "" {
			label = fmt.Sprint(i + 1)
		}
		kind := "pre"
		if spec.Lib {
			kind = "safe"
		}
		if !t.IsTrue() && !(spec.Lib && fc.spec.Allow["libpre"]) {
			v.addObligation(&Obligation{Name: fmt.Sprintf("%s#call%d[%s].pre.%s", fc.short, ord, cshort, label), Kind: kind, Func: fc.key,
				Pos: v.fset.Position(ins.Pos()).String(), Assume: withHints(st.pc), Goal: t, Expect: "unsat", Src: r.Src})
		}
		st.assume(c, t)
	}
	res := com.Signature().Results()
	// pure / defined functions
	if pf, ok := v.pureByKey[key]; ok && res.Len() == 1 && (spec.Pure || spec.Def != nil) && len(spec.Modifies) == 0 {
		t, err := v.pureResult(pf, argTerms, st)
		if err != nil {
			panic(specError{err.Error()})
		}
		for _, b := range borrows {
			b(st)
		}
		val := Val{T: t, GoT: res.At(0).Type()}
		v.assumeTyped(st, t, res.At(0).Type(), nil) // range / non-negative length of the result, as for non-pure calls
		fc.assumeEnsures(st, st.clone(), spec, key, env.vars, []Val{val}, res)
		fc.callResults[fmt.Sprintf("%s#%d", cshort, ord)] = []SV{{T: t, GoT: res.At(0).Type()}}
		return val
	}
	pre := st.clone()
	// a callee whose postconditions say fresh(x) allocates: the allocation counter moves forward by an unknown amount
	// (otherwise "x >= $alloc_before && x < $alloc_after" is contradictory at the call site and everything after the
	// call is proved vacuously); `fresh` result[0] of lib specs keeps the precise counter
	if ensuresMentionFresh(spec) {
		oldAlloc := v.getGlobal(st, "$alloc")
		na := c.Fresh("alloc", SInt)
		st.globals["$alloc"] = na
		st.assume(c, c.Cmp(">=", na, oldAlloc))
	}
	// havoc
	var freshConsts []*Term
	var touched []string
	mkFresh := func(prefix string, so *Sort) *Term {
		t := c.Fresh(prefix, so)
		freshConsts = append(freshConsts, t)
		return t
	}
	finals := map[string]SV{}
	var writeBacks []func()
	for _, m := range spec.Modifies {
		switch {
		case m.Kind == "id":
			so, ok := v.worlds[m.Name]
			if !ok {
				unsupported("modifies %s of %s: not a world variable", m.Name, key)
			}
			st.globals[m.Name] = mkFresh("w_"+m.Name, so)
			touched = append(touched, m.Name)
		case m.Kind == "un" && m.Name == "*":
			if m.Args[0].Kind == "id" && m.Args[0].Name == "result" {
				continue // handled after results exist
			}
			pv, err := calleeEnv.Eval(m.Args[0])
			if err != nil {
				panic(specError{fmt.Sprintf("modifies of %s: %v", key, err)})
			}
			el := pointee(pv.GoT)
			if el == nil {
				unsupported("modifies *%s of %s: not a pointer", m.Args[0], key)
			}
			hk := v.heapKeyFor(el)
			oldHeap := v.getGlobal(st, hk)
			nh := c.Store(oldHeap, pv.T, mkFresh("mod_"+sanitize(cshort), v.tm.SortOf(el)))
			if m.Args[0].Kind != "id" {
				// nothing can be written through a nil pointer (a callee `modifies *p.f` whose p.f may be nil); a bare pointer
				// parameter `*p` is kept as a plain store (callee contracts require p != nil)
				nh = c.Ite(c.Eq(pv.T, c.Int(0)), oldHeap, nh)
			}
			if a := m.Args[0]; a.Kind == "call" && (a.Name == "cast" || a.Name == "dyn" || a.Name == "unbox") && len(a.Args) == 2 {
				// `modifies *cast(x, *T)`: nothing is written when the dynamic type of x is not *T (the cast is meaningless
				// then) - a callee that decodes into one of several target types lists one clause per type
				if is, err := calleeEnv.Eval(&Expr{Kind: "call", Name: "typeis", Args: a.Args}); err == nil {
					nh = c.Ite(is.T, nh, oldHeap)
				}
			}
			st.globals[hk] = nh
			touched = append(touched, hk)
		case m.Kind == "call" && m.Name == "elems" && len(m.Args) == 1 && m.Args[0].Kind == "id":
			pn := m.Args[0].Name
			idx := -1
			for i, n := range names {
				if n == pn {
					idx = i
				}
			}
			if idx < 0 {
				unsupported("modifies elems(%s) of %s: no such parameter", pn, key)
			}
			org := args[idx].Origin
			if org == nil || org.Root != nil {
				unsupported("call %s mutates the elements of %s, but the argument is not a variable or field the model can write back to", key, pn)
			}
			oldv := argTerms[idx]
			nv := c.Ctor(oldv.Sort, c.Fresh("elems_"+pn, oldv.Sort.Fields[0].Sort), c.FieldOf(oldv, 1))
			finals[pn] = SV{T: nv, GoT: tys[idx]}
			writeBacks = append(writeBacks, func() { v.store(st, org, nv) })
		case v.modifiesHeapKey(m) != "":
			hk := v.modifiesHeapKey(m)
			st.globals[hk] = mkFresh("heap_"+sanitize(cshort), v.globalSort(hk))
			touched = append(touched, hk)
		default:
			unsupported("modifies clause %s of %s not understood", m, key)
		}
	}
	for _, wb := range writeBacks {
		wb()
	}
	// results
	var results []Val
	for i := 0; i < res.Len(); i++ {
		gt := res.At(i).Type()
		var t *Term
		if i == 0 && spec.Fresh {
			t = v.newRef(st)
			if el := pointee(gt); el != nil {
				hk := v.heapKeyFor(el)
				st.globals[hk] = c.Store(v.getGlobal(st, hk), t, mkFresh("new_"+sanitize(cshort), v.tm.SortOf(el)))
				touched = append(touched, hk)
			}
		} else {
			t = mkFresh("ret_"+sanitize(cshort), v.tm.SortOf(gt))
		}
		results = append(results, Val{T: t, GoT: gt})
	}
	for _, m := range spec.Modifies {
		if m.Kind == "un" && m.Name == "*" && m.Args[0].Kind == "id" && m.Args[0].Name == "result" && len(results) > 0 && !spec.Fresh {
			el := pointee(results[0].GoT)
			if el != nil {
				hk := v.heapKeyFor(el)
				st.globals[hk] = c.Store(v.getGlobal(st, hk), results[0].T, mkFresh("mod_"+sanitize(cshort), v.tm.SortOf(el)))
				touched = append(touched, hk)
			}
		}
	}
	vars := map[string]SV{}
	for k, x := range env.vars {
		vars[k] = x
	}
	for k, x := range finals {
		vars["$final:"+k] = x
	}
	sub := fc.assumeEnsuresSubst(st, pre, spec, key, vars, results, res, freshConsts)
	if len(sub) > 0 {
		for _, k := range touched {
			st.globals[k] = c.Subst(st.globals[k], sub)
		}
		for i := range results {
			results[i].T = c.Subst(results[i].T, sub)
		}
	}
	for i := range results {
		v.assumeTyped(st, results[i].T, results[i].GoT, nil)
	}
	for _, b := range borrows {
		b(st)
	}
	var rsv []SV
	for _, r := range results {
		rsv = append(rsv, SV{T: r.T, GoT: r.GoT})
	}
	fc.callResults[fmt.Sprintf("%s#%d", cshort, ord)] = rsv
	switch len(results) {
	case 0:
		return Val{}
	case 1:
		return results[0]
	}
	return Val{Tuple: results}
}

// callSiteClauses emits the obligations of the caller's `call PATTERN requires` clauses for one call.
func (fc *FuncCtx) callSiteClauses(st *State, env *Env, cshort string, ord int, ins ssa.Instruction, hints []*Term) {
	v := fc.v
	var patKeys []string
	for pat := range fc.spec.CallReq {
		patKeys = append(patKeys, pat)
	}
	sortStrings(patKeys)
	pc := st.pc
	if len(hints) > 0 {
		pc = append(append([]*Term{}, st.pc...), hints...)
	}
	for _, pat := range patKeys {
		cls := fc.spec.CallReq[pat]
		if !matchCallPattern(pat, cshort, ord) {
			continue
		}
		for i, cl := range cls {
			if cl.Where == "use" {
				continue
			}
			t, err := env.EvalBool(cl.E)
			if err != nil {
				panic(specError{fmt.Sprintf("call clause %s (line %d): %v", pat, cl.Line, err)})
			}
			label := cl.Label
			if label == "" {
				label = fmt.Sprint(i + 1)
			}
			if !v.clauseSelected(label) {
				continue
			}
			// known-finding witnesses of a call-site clause are evaluated in the environment of the call (callee parameter
			// names, caller variables) over a snapshot of the state at the call
			we := *env
			we.st = st.clone()
			oname := fmt.Sprintf("%s#call%d[%s].requires.%s", fc.short, ord, cshort, label)
			v.addObligation(&Obligation{Name: oname, Kind: "call", Func: fc.key,
				Pos: v.fset.Position(ins.Pos()).String(), Assume: pc, Goal: t, Expect: "unsat", Src: cl.Src, wenv: &we})
			// a call-site clause is also a cut: once proved at this point it may be used afterwards - unless it is a recorded
			// known finding (it does not hold; assuming it would let everything that follows from it prove vacuously)
			if _, isKnown := v.known[oname]; !isKnown {
				st.assume(v.c, t)
			}
		}
	}
}

func (fc *FuncCtx) assumeEnsures(st, pre *State, spec *FuncSpec, key string, vars map[string]SV, results []Val, res *types.Tuple) {
	v := fc.v
	if len(spec.Ensures) == 0 {
		return
	}
	post := &Env{v: v, vars: vars, lets: map[string]string{}, st: st, old: pre}
	for _, l := range spec.Lets {
		post.lets[l.Name] = l.Type
	}
	for i, r := range results {
		post.results = append(post.results, SV{T: r.T, GoT: r.GoT})
		if i < res.Len() {
			post.resNames = append(post.resNames, res.At(i).Name())
		}
	}
	for _, e := range spec.Ensures {
		if v.knownFalsePost(key, e.Label) {
			continue
		}
		t, err := post.EvalBool(e.E)
		if err != nil {
			panic(specError{fmt.Sprintf("ensures of %s (line %d): %v", key, e.Line, err)})
		}
		st.assume(v.c, t)
	}
}

// knownFalsePost: the callee's postcondition LABEL is a recorded known finding (`-known`): it does not hold on this tree, so
// callers must not assume it - everything that follows from it would otherwise prove under a false hypothesis.
func (v *Verifier) knownFalsePost(key, label string) bool {
	if label == "" {
		return false
	}
	base := shortFuncName(key) + "#post." + label
	if _, ok := v.known[base]; ok {
		v.notes["postcondition "+base+" is a known finding: not assumed at call sites"] = true
		return true
	}
	return false
}

// assumeEnsuresSubst assumes the callee's postconditions; conjuncts of the form fresh == term (fresh being a
// constant introduced for this call) are turned into substitutions instead of assumptions, which keeps
// the verification conditions free of needless indirections.
func (fc *FuncCtx) assumeEnsuresSubst(st, pre *State, spec *FuncSpec, key string, vars map[string]SV, results []Val, res *types.Tuple, fresh []*Term) map[*Term]*Term {
	v := fc.v
	c := v.c
	if len(spec.Ensures) == 0 {
		return nil
	}
	post := &Env{v: v, vars: vars, lets: map[string]string{}, st: st, old: pre}
	for _, l := range spec.Lets {
		post.lets[l.Name] = l.Type
	}
	for i, r := range results {
		post.results = append(post.results, SV{T: r.T, GoT: r.GoT})
		if i < res.Len() {
			post.resNames = append(post.resNames, res.At(i).Name())
		}
	}
	isFresh := map[*Term]bool{}
	for _, f := range fresh {
		isFresh[f] = true
	}
	// ghost variables of the callee are universally quantified in its postconditions
	var gbound []*Term
	if len(spec.Ghosts) > 0 {
		nv := map[string]SV{}
		for k, x := range vars {
			nv[k] = x
		}
		for _, g := range spec.Ghosts {
			so, gt, err := v.resolveTypeOrSort(g.Type)
			if err != nil {
				panic(specError{err.Error()})
			}
			b := c.BoundVar(g.Name, so)
			gbound = append(gbound, b)
			nv[g.Name] = SV{T: b, GoT: gt}
		}
		post.vars = nv
	}
	var conj []*Term
	var flatten func(t *Term)
	flatten = func(t *Term) {
		if t.Op == "app" && t.Name == "and" {
			for _, a := range t.Args {
				flatten(a)
			}
			return
		}
		conj = append(conj, t)
	}
	for _, e := range spec.Ensures {
		if v.knownFalsePost(key, e.Label) {
			continue
		}
		if ensuresMentionsRet(spec, e.E) {
			// a postcondition over ret(Callee, n, i) speaks about the callee's own call history: it is proved for the
			// callee and not exported to its callers
			continue
		}
		t, err := post.EvalBool(e.E)
		if err != nil {
			panic(specError{fmt.Sprintf("ensures of %s (line %d): %v", key, e.Line, err)})
		}
		if t.hasBound && len(gbound) > 0 {
			conj = append(conj, c.Quant(true, gbound, t))
			continue
		}
		flatten(t)
	}
	sub := map[*Term]*Term{}
	var rest []*Term
	for _, t := range conj {
		t = c.Subst(t, sub)
		if t.Op == "app" && t.Name == "=" && len(t.Args) == 2 {
			a, b := t.Args[0], t.Args[1]
			if isFresh[b] && !isFresh[a] {
				a, b = b, a
			}
			if isFresh[a] && sub[a] == nil && !occurs(a, b) {
				// compose
				for k, val := range sub {
					sub[k] = c.Subst(val, map[*Term]*Term{a: b})
				}
				sub[a] = b
				continue
			}
		}
		rest = append(rest, t)
	}
	for _, t := range rest {
		st.assume(c, c.Subst(t, sub))
	}
	return sub
}

// ensuresMentionsRet: the expression uses ret(Callee, n, i), directly or through a `let` macro of the contract.
func ensuresMentionsRet(spec *FuncSpec, e *Expr) bool {
	if e == nil {
		return false
	}
	if e.Kind == "call" && e.Name == "ret" {
		return true
	}
	if e.Kind == "id" && retLets(spec)[e.Name] {
		return true
	}
	for _, a := range e.Args {
		if ensuresMentionsRet(spec, a) {
			return true
		}
	}
	return false
}

// retLets: the `let` macros of a contract whose text uses ret(...), directly or through another such macro (macros may only
// use macros declared before them, so one pass in declaration order is a fixpoint).
func retLets(spec *FuncSpec) map[string]bool {
	out := map[string]bool{}
	isIdent := func(b byte) bool {
		return b == '_' || b == '$' || (b >= '0' && b <= '9') || (b >= 'a' && b <= 'z') || (b >= 'A' && b <= 'Z')
	}
	mentions := func(text, name string) bool {
		for i := 0; i+len(name) <= len(text); i++ {
			if text[i:i+len(name)] == name && (i == 0 || !isIdent(text[i-1])) && (i+len(name) == len(text) || !isIdent(text[i+len(name)])) {
				return true
			}
		}
		return false
	}
	for _, l := range spec.Lets {
		if strings.Contains(l.Type, "ret(") {
			out[l.Name] = true
			continue
		}
		for n := range out {
			if mentions(l.Type, n) {
				out[l.Name] = true
				break
			}
		}
	}
	return out
}

// ensuresMentionFresh: some postcondition of the contract uses fresh(...).
func ensuresMentionFresh(spec *FuncSpec) bool {
	var has func(e *Expr) bool
	has = func(e *Expr) bool {
		if e == nil {
			return false
		}
		if e.Kind == "call" && e.Name == "fresh" {
			return true
		}
		for _, a := range e.Args {
			if has(a) {
				return true
			}
		}
		return false
	}
	for _, cl := range spec.Ensures {
		if has(cl.E) || strings.Contains(cl.Src, "fresh(") {
			return true
		}
	}
	return false
}

func occurs(x, in *Term) bool {
	seen := map[int]bool{}
	var walk func(t *Term) bool
	walk = func(t *Term) bool {
		if t == x {
			return true
		}
		if seen[t.id] {
			return false
		}
		seen[t.id] = true
		for _, a := range t.Args {
			if walk(a) {
				return true
			}
		}
		return false
	}
	return walk(in)
}

func matchCallPattern(pat, cshort string, ord int) bool {
	name := pat
	want := 0
	if k := strings.Index(pat, "#"); k >= 0 {
		name = pat[:k]
		fmt.Sscanf(pat[k+1:], "%d", &want)
	}
	if want != 0 && want != ord {
		return false
	}
	return cshort == name || strings.HasSuffix(cshort, "."+name)
}

// ------------------------------------------------------------ frame obligations of the verified function

// modifiesHeapKey: for a clause `modifies heap(T)` (every object of Go type T may be written: the objects are reachable
// only through interface values / slices, so they cannot be named one by one) the heap key of T, else "".
func (v *Verifier) modifiesHeapKey(m *Expr) string {
	if m.Kind != "call" || m.Name != "heap" || len(m.Args) != 1 {
		return ""
	}
	tn := typeExprName(m.Args[0])
	if m.Args[0].Kind == "str" {
		tn = m.Args[0].Name
	}
	if tn == "" {
		panic(specError{fmt.Sprintf("modifies %s: heap(T) needs a Go type name", m)})
	}
	_, gt, err := v.resolveType(tn)
	if err != nil || gt == nil {
		panic(specError{fmt.Sprintf("modifies %s: cannot resolve Go type %q", m, tn)})
	}
	return v.heapKeyFor(gt)
}

// modifiesWholeHeap: the verified function declares `modifies heap(T)` for the heap `key`.
func (fc *FuncCtx) modifiesWholeHeap(key string) bool {
	for _, m := range fc.spec.Modifies {
		if hk := fc.v.modifiesHeapKey(m); hk != "" && hk == key {
			return true
		}
	}
	return false
}

// allowedTargets evaluates the modifies clauses of the verified function in its entry state.
func (fc *FuncCtx) allowedTargets() (map[string][]*Term, map[string]bool) {
	v := fc.v
	entry := fc.entry
	env := fc.env(entry, entry)
	env.vars = fc.paramVars()
	allowedRefs := map[string][]*Term{}
	allowedWorld := map[string]bool{}
	for _, m := range fc.spec.Modifies {
		switch {
		case m.Kind == "id":
			allowedWorld[m.Name] = true
		case m.Kind == "un" && m.Name == "*":
			if m.Args[0].Kind == "id" && m.Args[0].Name == "result" {
				continue
			}
			pv, err := env.Eval(m.Args[0])
			if err != nil {
				panic(specError{fmt.Sprintf("modifies: %v", err)})
			}
			el := pointee(pv.GoT)
			if el == nil {
				panic(specError{fmt.Sprintf("modifies *%s: not a pointer", m.Args[0])})
			}
			hk := v.heapKeyFor(el)
			allowedRefs[hk] = append(allowedRefs[hk], pv.T)
		case m.Kind == "call" && m.Name == "elems":
		case v.modifiesHeapKey(m) != "":
		default:
			panic(specError{fmt.Sprintf("modifies clause %s not understood", m)})
		}
	}
	return allowedRefs, allowedWorld
}

// heapFrameTerm: every pre-existing object of heap `key` that is not a modifies target has its entry value in st.
func (fc *FuncCtx) heapFrameTerm(st *State, key string) *Term {
	v := fc.v
	c := v.c
	if fc.modifiesWholeHeap(key) {
		return c.Bool(true)
	}
	allowed, _ := fc.allowedTargets()
	alloc0 := v.getGlobal(fc.entry, "$alloc")
	r := c.BoundVar("r", SInt)
	conds := []*Term{c.Cmp("<=", c.Int(0), r), c.Cmp("<", r, alloc0)}
	for _, a := range allowed[key] {
		conds = append(conds, c.Not(c.Eq(r, a)))
	}
	body := c.Implies(c.And(conds...), c.Eq(c.Select(v.getGlobal(st, key), r), c.Select(v.getGlobal(fc.entry, key), r)))
	return c.Quant(true, []*Term{r}, body)
}

func (fc *FuncCtx) frameObligations(final *State) {
	if fc.spec.Allow["frame"] {
		fc.v.notes[fc.key+": heap/world frame obligations are not generated (allow frame)"] = true
		return
	}
	v := fc.v
	c := v.c
	entry := fc.entry
	alloc0 := v.getGlobal(entry, "$alloc")
	env := fc.env(entry, entry)
	env.vars = fc.paramVars()
	// allowed targets per heap key / world
	allowedRefs := map[string][]*Term{}
	allowedWorld := map[string]bool{}
	for _, m := range fc.spec.Modifies {
		switch {
		case m.Kind == "id":
			allowedWorld[m.Name] = true
		case m.Kind == "un" && m.Name == "*":
			if m.Args[0].Kind == "id" && m.Args[0].Name == "result" {
				continue
			}
			pv, err := env.Eval(m.Args[0])
			if err != nil {
				panic(specError{fmt.Sprintf("modifies: %v", err)})
			}
			el := pointee(pv.GoT)
			if el == nil {
				panic(specError{fmt.Sprintf("modifies *%s: not a pointer", m.Args[0])})
			}
			hk := v.heapKeyFor(el)
			allowedRefs[hk] = append(allowedRefs[hk], pv.T)
		case m.Kind == "call" && m.Name == "elems":
		case v.modifiesHeapKey(m) != "":
		default:
			panic(specError{fmt.Sprintf("modifies clause %s not understood", m)})
		}
	}
	var keys []string
	for k := range final.globals {
		keys = append(keys, k)
	}
	sortStrings(keys)
	for _, k := range keys {
		if k == "$alloc" {
			continue
		}
		fin := final.globals[k]
		ini := v.getGlobal(entry, k)
		if fin == ini {
			continue
		}
		if _, isWorld := v.worlds[k]; isWorld {
			if allowedWorld[k] {
				continue
			}
			v.addObligation(&Obligation{Name: fc.short + "#frame." + k, Kind: "frame", Func: fc.key, Assume: final.pc, Goal: c.Eq(fin, ini), Expect: "unsat",
				Note: "world variable not listed in modifies must be unchanged"})
			continue
		}
		if fc.modifiesWholeHeap(k) {
			continue
		}
		r := c.Const(fc.short+".$anyref", SInt)
		conds := []*Term{c.Cmp("<", r, alloc0), c.Cmp("<=", c.Int(0), r)}
		for _, a := range allowedRefs[k] {
			conds = append(conds, c.Not(c.Eq(r, a)))
		}
		goal := c.Implies(c.And(conds...), c.Eq(c.Select(fin, r), c.Select(ini, r)))
		v.addObligation(&Obligation{Name: fc.short + "#frame." + k, Kind: "frame", Func: fc.key, Assume: final.pc, Goal: goal, Expect: "unsat",
			Note: "pre-existing heap objects not listed in modifies are unchanged"})
	}
}

func sortStrings(s []string) {
	for i := 1; i < len(s); i++ {
		for j := i; j > 0 && s[j] < s[j-1]; j-- {
			s[j], s[j-1] = s[j-1], s[j]
		}
	}
}
