package main

// SMT term DAG (hash-consed), sorts, printing.

import (
	"fmt"
	"math/big"
	"sort"
	"strings"
)

type SortKind int

const (
	KBool SortKind = iota
	KInt
	KUnint
	KArray
	KData
)

type DField struct {
	Name string // field name (Go name)
	Sort *Sort
	Sel  string // SMT selector symbol
}

type Sort struct {
	Kind   SortKind
	Name   string // SMT name (Bool, Int, declared sort, datatype name); arrays: structural text
	Key    *Sort
	Elem   *Sort
	Fields []DField
	Ctor   string
}

func (s *Sort) String() string { return s.Name }

var (
	SBool = &Sort{Kind: KBool, Name: "Bool"}
	SInt  = &Sort{Kind: KInt, Name: "Int"}
)

type SortTable struct {
	byName map[string]*Sort
	order  []*Sort // declaration order for unint + data
	// Resolve (optional) maps a name that is not a declared sort (Go type path, alias, []T, *T) to its sort,
	// so that sort expressions such as (Array Str pkg/path.T) can mention Go types.
	Resolve func(name string) *Sort
}

func NewSortTable() *SortTable {
	st := &SortTable{byName: map[string]*Sort{}}
	st.byName["Bool"] = SBool
	st.byName["Int"] = SInt
	return st
}

func (st *SortTable) Unint(name string) *Sort {
	if s, ok := st.byName[name]; ok {
		return s
	}
	s := &Sort{Kind: KUnint, Name: name}
	st.byName[name] = s
	st.order = append(st.order, s)
	return s
}

func (st *SortTable) Array(k, e *Sort) *Sort {
	name := "(Array " + k.Name + " " + e.Name + ")"
	if s, ok := st.byName[name]; ok {
		return s
	}
	s := &Sort{Kind: KArray, Name: name, Key: k, Elem: e}
	st.byName[name] = s
	return s
}

// Data declares (or returns) a single-constructor datatype. Fields may be
// filled in later through the returned pointer (to allow forward refs through pointers=Int).
func (st *SortTable) Data(name string) (*Sort, bool) {
	if s, ok := st.byName[name]; ok {
		return s, false
	}
	s := &Sort{Kind: KData, Name: name, Ctor: "mk_" + name}
	st.byName[name] = s
	st.order = append(st.order, s)
	return s, true
}

func (st *SortTable) Lookup(name string) *Sort { return st.byName[name] }

// ParseSort parses "(Array K V)" / names.
func (st *SortTable) ParseSort(txt string) (*Sort, error) {
	toks := tokenizeSexp(txt)
	pos := 0
	var rec func() (*Sort, error)
	rec = func() (*Sort, error) {
		if pos >= len(toks) {
			return nil, fmt.Errorf("sort: unexpected end in %q", txt)
		}
		t := toks[pos]
		pos++
		if t == "(" {
			if pos < len(toks) && toks[pos] == "Array" {
				pos++
				k, err := rec()
				if err != nil {
					return nil, err
				}
				e, err := rec()
				if err != nil {
					return nil, err
				}
				if pos >= len(toks) || toks[pos] != ")" {
					return nil, fmt.Errorf("sort: expected ) in %q", txt)
				}
				pos++
				return st.Array(k, e), nil
			}
			return nil, fmt.Errorf("sort: unsupported %q", txt)
		}
		s := st.byName[t]
		if s == nil && st.Resolve != nil {
			s = st.Resolve(t)
		}
		if s == nil {
			return nil, fmt.Errorf("sort: unknown sort %q", t)
		}
		return s, nil
	}
	return rec()
}

func tokenizeSexp(s string) []string {
	var toks []string
	i := 0
	for i < len(s) {
		c := s[i]
		switch {
		case c == ' ' || c == '\t' || c == '\n' || c == '\r':
			i++
		case c == '(' || c == ')':
			toks = append(toks, string(c))
			i++
		case c == '|':
			j := i + 1
			for j < len(s) && s[j] != '|' {
				j++
			}
			toks = append(toks, s[i:min(j+1, len(s))])
			i = j + 1
		case c == '"':
			j := i + 1
			for j < len(s) && s[j] != '"' {
				j++
			}
			toks = append(toks, s[i:min(j+1, len(s))])
			i = j + 1
		case c == ';':
			for i < len(s) && s[i] != '\n' {
				i++
			}
		default:
			j := i
			for j < len(s) && !strings.ContainsRune(" \t\n\r()", rune(s[j])) {
				j++
			}
			toks = append(toks, s[i:j])
			i = j
		}
	}
	return toks
}

// ---------------------------------------------------------------- terms

type Term struct {
	id       int
	Op       string // "var","int","bool","app","forall","exists","bound"
	Name     string
	Args     []*Term
	Sort     *Sort
	Bound    []*Term
	hasBound bool
	IntVal   *big.Int
}

type FuncSig struct {
	Name   string
	Params []*Sort
	Ret    *Sort
}

type TermCtx struct {
	Sorts   *SortTable
	terms   map[string]*Term
	nextID  int
	consts  map[string]*Sort    // declared constants
	funcs   map[string]*FuncSig // declared uninterpreted functions
	defs    map[string]string   // define-fun text by name (prelude / specfunc smt)
	defOrd  []string
	axioms  map[string][]string // symbol -> axioms text emitted when symbol is used
	freshN  map[string]int
	symDeps map[string][]string // define-fun name -> symbols it references (other defs / funcs)
	defSigs map[string]*FuncSig // signatures of define-funs that may be abstracted to uninterpreted functions
}

func NewTermCtx() *TermCtx {
	return &TermCtx{Sorts: NewSortTable(), terms: map[string]*Term{}, consts: map[string]*Sort{},
		funcs: map[string]*FuncSig{}, defs: map[string]string{}, axioms: map[string][]string{}, freshN: map[string]int{},
		symDeps: map[string][]string{}, defSigs: map[string]*FuncSig{}}
}

func (c *TermCtx) mk(op, name string, sort *Sort, args []*Term, bound []*Term, iv *big.Int) *Term {
	var sb strings.Builder
	sb.WriteString(op)
	sb.WriteByte('|')
	sb.WriteString(name)
	sb.WriteByte('|')
	sb.WriteString(sort.Name)
	for _, a := range args {
		fmt.Fprintf(&sb, ",%d", a.id)
	}
	if len(bound) > 0 {
		sb.WriteString("|b")
		for _, b := range bound {
			fmt.Fprintf(&sb, ",%d", b.id)
		}
	}
	key := sb.String()
	if t, ok := c.terms[key]; ok {
		return t
	}
	c.nextID++
	t := &Term{id: c.nextID, Op: op, Name: name, Args: args, Sort: sort, Bound: bound, IntVal: iv}
	if op == "bound" {
		t.hasBound = true
	}
	for _, a := range args {
		if a.hasBound {
			t.hasBound = true
		}
	}
	c.terms[key] = t
	return t
}

func sanitizeSym(s string) string {
	var sb strings.Builder
	for _, r := range s {
		if r >= 'a' && r <= 'z' || r >= 'A' && r <= 'Z' || r >= '0' && r <= '9' || r == '_' {
			sb.WriteRune(r)
		} else {
			sb.WriteRune('_')
		}
	}
	return sb.String()
}

func smtSym(name string) string {
	ok := true
	for _, r := range name {
		if !(r >= 'a' && r <= 'z' || r >= 'A' && r <= 'Z' || r >= '0' && r <= '9' || strings.ContainsRune("_.$@!%^&*-+<>=/?~", r)) {
			ok = false
			break
		}
	}
	if ok && name != "" && !(name[0] >= '0' && name[0] <= '9') {
		return name
	}
	return "|" + strings.ReplaceAll(name, "|", "!") + "|"
}

func (c *TermCtx) Const(name string, s *Sort) *Term {
	if old, ok := c.consts[name]; ok && old != s {
		panic(fmt.Sprintf("const %s redeclared with sort %s (was %s)", name, s.Name, old.Name))
	}
	c.consts[name] = s
	return c.mk("var", name, s, nil, nil, nil)
}

func (c *TermCtx) Fresh(prefix string, s *Sort) *Term {
	c.freshN[prefix]++
	return c.Const(fmt.Sprintf("%s!%d", prefix, c.freshN[prefix]), s)
}

func (c *TermCtx) BoundVar(name string, s *Sort) *Term {
	c.freshN["$b"]++
	return c.mk("bound", fmt.Sprintf("%s!b%d", name, c.freshN["$b"]), s, nil, nil, nil)
}

func (c *TermCtx) Int(v int64) *Term { return c.BigInt(big.NewInt(v)) }
func (c *TermCtx) BigInt(v *big.Int) *Term {
	return c.mk("int", v.String(), SInt, nil, nil, new(big.Int).Set(v))
}
func (c *TermCtx) Bool(b bool) *Term {
	if b {
		return c.mk("bool", "true", SBool, nil, nil, nil)
	}
	return c.mk("bool", "false", SBool, nil, nil, nil)
}
func (t *Term) IsTrue() bool  { return t.Op == "bool" && t.Name == "true" }
func (t *Term) IsFalse() bool { return t.Op == "bool" && t.Name == "false" }

// App builds an application of a builtin or declared symbol.
func (c *TermCtx) App(name string, s *Sort, args ...*Term) *Term {
	return c.mk("app", name, s, args, nil, nil)
}

func (c *TermCtx) DeclareFun(name string, params []*Sort, ret *Sort) *FuncSig {
	if f, ok := c.funcs[name]; ok {
		return f
	}
	f := &FuncSig{Name: name, Params: params, Ret: ret}
	c.funcs[name] = f
	return f
}

func (c *TermCtx) UF(name string, ret *Sort, args ...*Term) *Term {
	ps := make([]*Sort, len(args))
	for i, a := range args {
		ps[i] = a.Sort
	}
	// the same name used at different sorts (instantiations of a generic function): one symbol per signature
	if f, ok := c.funcs[name]; ok {
		same := f.Ret == ret && len(f.Params) == len(ps)
		for i := 0; same && i < len(ps); i++ {
			same = f.Params[i] == ps[i]
		}
		if !same {
			alt := name
			for _, p := range ps {
				alt += "_" + sanitizeSym(p.Name)
			}
			name = alt + "_to_" + sanitizeSym(ret.Name)
		}
	}
	c.DeclareFun(name, ps, ret)
	return c.App(name, ret, args...)
}

// DefineFun registers a define-fun (full text) that is emitted when used.
func (c *TermCtx) DefineFun(name, text string, deps ...string) {
	if _, ok := c.defs[name]; !ok {
		c.defOrd = append(c.defOrd, name)
	}
	c.defs[name] = text
	c.symDeps[name] = deps
}

func (c *TermCtx) AddAxiom(sym, text string) { c.axioms[sym] = append(c.axioms[sym], text) }

// ----- boolean / arithmetic builders with light simplification

func (c *TermCtx) Not(a *Term) *Term {
	if a.IsTrue() {
		return c.Bool(false)
	}
	if a.IsFalse() {
		return c.Bool(true)
	}
	if a.Op == "app" && a.Name == "not" {
		return a.Args[0]
	}
	return c.App("not", SBool, a)
}

func (c *TermCtx) And(xs ...*Term) *Term {
	var out []*Term
	seen := map[int]bool{}
	for _, x := range xs {
		if x.IsTrue() {
			continue
		}
		if x.IsFalse() {
			return x
		}
		if x.Op == "app" && x.Name == "and" {
			for _, y := range x.Args {
				if !seen[y.id] {
					seen[y.id] = true
					out = append(out, y)
				}
			}
			continue
		}
		if !seen[x.id] {
			seen[x.id] = true
			out = append(out, x)
		}
	}
	if len(out) == 0 {
		return c.Bool(true)
	}
	if len(out) == 1 {
		return out[0]
	}
	return c.App("and", SBool, out...)
}

func (c *TermCtx) Or(xs ...*Term) *Term {
	var out []*Term
	seen := map[int]bool{}
	for _, x := range xs {
		if x.IsFalse() {
			continue
		}
		if x.IsTrue() {
			return x
		}
		if !seen[x.id] {
			seen[x.id] = true
			out = append(out, x)
		}
	}
	if len(out) == 0 {
		return c.Bool(false)
	}
	if len(out) == 1 {
		return out[0]
	}
	// x or not x
	for _, x := range out {
		if x.Op == "app" && x.Name == "not" && seen[x.Args[0].id] {
			return c.Bool(true)
		}
	}
	return c.App("or", SBool, out...)
}

func (c *TermCtx) Implies(a, b *Term) *Term {
	if a.IsTrue() {
		return b
	}
	if a.IsFalse() || b.IsTrue() {
		return c.Bool(true)
	}
	return c.App("=>", SBool, a, b)
}

func (c *TermCtx) Ite(cond, a, b *Term) *Term {
	if cond.IsTrue() {
		return a
	}
	if cond.IsFalse() {
		return b
	}
	if a == b {
		return a
	}
	if a.Sort != b.Sort {
		panic(fmt.Sprintf("ite sort mismatch %s vs %s", a.Sort.Name, b.Sort.Name))
	}
	if a.Sort == SBool {
		if a.IsTrue() && b.IsFalse() {
			return cond
		}
		if a.IsFalse() && b.IsTrue() {
			return c.Not(cond)
		}
	}
	return c.App("ite", a.Sort, cond, a, b)
}

func (c *TermCtx) Eq(a, b *Term) *Term {
	if a == b {
		return c.Bool(true)
	}
	if a.Sort != b.Sort {
		panic(fmt.Sprintf("eq sort mismatch %s vs %s (%s, %s)", a.Sort.Name, b.Sort.Name, c.Show(a), c.Show(b)))
	}
	if a.Op == "int" && b.Op == "int" {
		return c.Bool(a.IntVal.Cmp(b.IntVal) == 0)
	}
	if a.Op == "bool" && b.Op == "bool" {
		return c.Bool(a.Name == b.Name)
	}
	if a.Sort == SBool {
		if b.IsTrue() {
			return a
		}
		if a.IsTrue() {
			return b
		}
		if b.IsFalse() {
			return c.Not(a)
		}
		if a.IsFalse() {
			return c.Not(b)
		}
	}
	if a.id > b.id {
		a, b = b, a
	}
	return c.App("=", SBool, a, b)
}

func (c *TermCtx) Arith(op string, a, b *Term) *Term {
	if a.Op == "int" && b.Op == "int" {
		r := new(big.Int)
		switch op {
		case "+":
			return c.BigInt(r.Add(a.IntVal, b.IntVal))
		case "-":
			return c.BigInt(r.Sub(a.IntVal, b.IntVal))
		case "*":
			return c.BigInt(r.Mul(a.IntVal, b.IntVal))
		}
	}
	if op == "+" || op == "-" {
		// normalise (x + k1) + k2 -> x + (k1+k2): keeps reference arithmetic (alloc + k) canonical
		if b.Op == "int" {
			if base, k := linOffset(a); base != nil && k.Sign() != 0 {
				nk := new(big.Int)
				if op == "+" {
					nk.Add(k, b.IntVal)
				} else {
					nk.Sub(k, b.IntVal)
				}
				if nk.Sign() == 0 {
					return base
				}
				return c.App("+", SInt, base, c.BigInt(nk))
			}
		}
		if op == "+" && a.Op == "int" && b.Op != "int" {
			return c.Arith("+", b, a)
		}
	}
	if op == "+" {
		if a.Op == "int" && a.IntVal.Sign() == 0 {
			return b
		}
		if b.Op == "int" && b.IntVal.Sign() == 0 {
			return a
		}
	}
	if op == "-" && b.Op == "int" && b.IntVal.Sign() == 0 {
		return a
	}
	if op == "*" {
		if a.Op == "int" && a.IntVal.Cmp(big.NewInt(1)) == 0 {
			return b
		}
		if b.Op == "int" && b.IntVal.Cmp(big.NewInt(1)) == 0 {
			return a
		}
	}
	return c.App(op, SInt, a, b)
}

// linOffset splits t into base + k (k constant). base is nil for a pure constant.
func linOffset(t *Term) (*Term, *big.Int) {
	if t.Op == "int" {
		return nil, t.IntVal
	}
	if t.Op == "app" && t.Name == "+" && len(t.Args) == 2 && t.Args[1].Op == "int" {
		return t.Args[0], t.Args[1].IntVal
	}
	return t, new(big.Int)
}

// definitelyDistinct: syntactically provable disequality of two Int terms.
func definitelyDistinct(a, b *Term) bool {
	ba, ka := linOffset(a)
	bb, kb := linOffset(b)
	return ba == bb && ka.Cmp(kb) != 0
}

func (c *TermCtx) Neg(a *Term) *Term {
	if a.Op == "int" {
		return c.BigInt(new(big.Int).Neg(a.IntVal))
	}
	return c.App("-", SInt, a)
}

func (c *TermCtx) Cmp(op string, a, b *Term) *Term {
	if a.Op == "int" && b.Op == "int" {
		k := a.IntVal.Cmp(b.IntVal)
		switch op {
		case "<":
			return c.Bool(k < 0)
		case "<=":
			return c.Bool(k <= 0)
		case ">":
			return c.Bool(k > 0)
		case ">=":
			return c.Bool(k >= 0)
		}
	}
	return c.App(op, SBool, a, b)
}

func (c *TermCtx) Select(arr, idx *Term) *Term {
	if arr.Sort.Kind != KArray {
		panic("select on non-array " + arr.Sort.Name)
	}
	// select(store(a,i,v), i) = v
	cur := arr
	for cur.Op == "app" && cur.Name == "store" {
		if cur.Args[1] == idx {
			return cur.Args[2]
		}
		if cur.Args[1].Sort == SInt && definitelyDistinct(cur.Args[1], idx) {
			cur = cur.Args[0]
			continue
		}
		break
	}
	if cur.Op == "app" && strings.HasPrefix(cur.Name, "(as const") {
		return cur.Args[0]
	}
	return c.App("select", arr.Sort.Elem, cur, idx)
}

func (c *TermCtx) Store(arr, idx, v *Term) *Term {
	if arr.Sort.Kind != KArray {
		panic("store on non-array " + arr.Sort.Name)
	}
	if v.Sort != arr.Sort.Elem {
		panic(fmt.Sprintf("store elem sort mismatch: %s into %s", v.Sort.Name, arr.Sort.Name))
	}
	if arr.Op == "app" && arr.Name == "store" && arr.Args[1] == idx {
		arr = arr.Args[0]
	}
	return c.App("store", arr.Sort, arr, idx, v)
}

func (c *TermCtx) ConstArray(s *Sort, v *Term) *Term {
	return c.App("(as const "+s.Name+")", s, v)
}

func (c *TermCtx) Ctor(s *Sort, args ...*Term) *Term {
	if len(args) != len(s.Fields) {
		panic("ctor arity " + s.Name)
	}
	// mk(sel0(x), sel1(x), ...) = x
	if len(args) > 0 {
		var base *Term
		ok := true
		for i, a := range args {
			if a.Op == "app" && a.Name == s.Fields[i].Sel && len(a.Args) == 1 && (base == nil || base == a.Args[0]) {
				base = a.Args[0]
			} else {
				ok = false
				break
			}
		}
		if ok && base != nil && base.Sort == s {
			return base
		}
	}
	return c.App(s.Ctor, s, args...)
}

func (c *TermCtx) FieldOf(x *Term, i int) *Term {
	s := x.Sort
	if s.Kind != KData {
		panic("field of non-data " + s.Name)
	}
	if x.Op == "app" && x.Name == s.Ctor {
		return x.Args[i]
	}
	if x.Op == "app" && x.Name == "ite" {
		// push accessor through ite when both branches are constructors (keeps terms small)
		a, b := x.Args[1], x.Args[2]
		if a.Op == "app" && a.Name == s.Ctor && b.Op == "app" && b.Name == s.Ctor {
			return c.Ite(x.Args[0], a.Args[i], b.Args[i])
		}
	}
	return c.App(s.Fields[i].Sel, s.Fields[i].Sort, x)
}

func (c *TermCtx) FieldByName(x *Term, name string) (*Term, bool) {
	for i, f := range x.Sort.Fields {
		if f.Name == name {
			return c.FieldOf(x, i), true
		}
	}
	return nil, false
}

func (c *TermCtx) WithField(x *Term, i int, v *Term) *Term {
	s := x.Sort
	args := make([]*Term, len(s.Fields))
	for j := range s.Fields {
		if j == i {
			args[j] = v
		} else {
			args[j] = c.FieldOf(x, j)
		}
	}
	return c.Ctor(s, args...)
}

func (c *TermCtx) Quant(forall bool, vars []*Term, body *Term) *Term {
	if body.Op == "bool" {
		return body
	}
	op := "exists"
	if forall {
		op = "forall"
	}
	t := c.mk(op, "", SBool, []*Term{body}, vars, nil)
	// hasBound: true only if body mentions bound vars not bound here
	t.hasBound = c.freeBound(t)
	return t
}

func (c *TermCtx) freeBound(t *Term) bool {
	free := map[int]bool{}
	var walk func(x *Term, bound map[int]bool)
	seen := map[int]bool{}
	walk = func(x *Term, bound map[int]bool) {
		if !x.hasBound && x.Op != "forall" && x.Op != "exists" {
			return
		}
		if x.Op == "bound" {
			if !bound[x.id] {
				free[x.id] = true
			}
			return
		}
		if x.Op == "forall" || x.Op == "exists" {
			nb := map[int]bool{}
			for k := range bound {
				nb[k] = true
			}
			for _, b := range x.Bound {
				nb[b.id] = true
			}
			walk(x.Args[0], nb)
			return
		}
		_ = seen
		for _, a := range x.Args {
			walk(a, bound)
		}
	}
	walk(t, map[int]bool{})
	return len(free) > 0
}

// Subst replaces terms (by identity) in t.
func (c *TermCtx) Subst(t *Term, m map[*Term]*Term) *Term {
	memo := map[*Term]*Term{}
	var rec func(x *Term) *Term
	rec = func(x *Term) *Term {
		if r, ok := m[x]; ok {
			return r
		}
		if r, ok := memo[x]; ok {
			return r
		}
		var r *Term
		switch x.Op {
		case "var", "int", "bool", "bound":
			r = x
		case "forall", "exists":
			r = c.Quant(x.Op == "forall", x.Bound, rec(x.Args[0]))
		default:
			args := make([]*Term, len(x.Args))
			ch := false
			for i, a := range x.Args {
				args[i] = rec(a)
				if args[i] != a {
					ch = true
				}
			}
			if !ch {
				r = x
			} else {
				r = c.rebuild(x, args)
			}
		}
		memo[x] = r
		return r
	}
	return rec(t)
}

func (c *TermCtx) rebuild(x *Term, args []*Term) *Term {
	switch x.Name {
	case "and":
		return c.And(args...)
	case "or":
		return c.Or(args...)
	case "not":
		return c.Not(args[0])
	case "=>":
		return c.Implies(args[0], args[1])
	case "ite":
		return c.Ite(args[0], args[1], args[2])
	case "=":
		return c.Eq(args[0], args[1])
	case "select":
		return c.Select(args[0], args[1])
	case "store":
		return c.Store(args[0], args[1], args[2])
	case "+", "*":
		if len(args) == 2 {
			return c.Arith(x.Name, args[0], args[1])
		}
	case "-":
		if len(args) == 2 {
			return c.Arith("-", args[0], args[1])
		}
		if len(args) == 1 {
			return c.Neg(args[0])
		}
	case "<", "<=", ">", ">=":
		return c.Cmp(x.Name, args[0], args[1])
	}
	if x.Sort.Kind == KData || (len(args) == 1 && args[0].Sort.Kind == KData) {
		if x.Name == x.Sort.Ctor && x.Sort.Kind == KData {
			return c.Ctor(x.Sort, args...)
		}
		if len(args) == 1 && args[0].Sort.Kind == KData {
			for i, f := range args[0].Sort.Fields {
				if f.Sel == x.Name {
					return c.FieldOf(args[0], i)
				}
			}
		}
	}
	return c.App(x.Name, x.Sort, args...)
}

// ---------------------------------------------------------------- printing

func (c *TermCtx) Show(t *Term) string {
	var sb strings.Builder
	c.printTerm(&sb, t, nil)
	return sb.String()
}

func (c *TermCtx) printTerm(sb *strings.Builder, t *Term, names map[int]string) {
	if names != nil {
		if n, ok := names[t.id]; ok {
			sb.WriteString(n)
			return
		}
	}
	switch t.Op {
	case "var", "bound":
		sb.WriteString(smtSym(t.Name))
	case "int":
		if t.IntVal.Sign() < 0 {
			sb.WriteString("(- " + new(big.Int).Neg(t.IntVal).String() + ")")
		} else {
			sb.WriteString(t.IntVal.String())
		}
	case "bool":
		sb.WriteString(t.Name)
	case "forall", "exists":
		sb.WriteString("(" + t.Op + " (")
		for _, b := range t.Bound {
			sb.WriteString("(" + smtSym(b.Name) + " " + b.Sort.Name + ")")
		}
		sb.WriteString(") ")
		c.printTerm(sb, t.Args[0], names)
		sb.WriteString(")")
	case "app":
		if len(t.Args) == 0 {
			sb.WriteString(t.Name)
			return
		}
		sb.WriteString("(" + t.Name)
		for _, a := range t.Args {
			sb.WriteByte(' ')
			c.printTerm(sb, a, names)
		}
		sb.WriteString(")")
	}
}

type Query struct {
	Abstract map[string]bool // define-funs to emit as uninterpreted functions (sound for unsat answers only)
	Name     string
	Assume   []*Term
	Goal     *Term // nil => satisfiability (cover/canary) query of the assumptions
	Extra    []string
	Comment  string
}

// Render produces SMT-LIB text for a query. Shared closed subterms are named with define-fun.
func (c *TermCtx) Render(q *Query, wantModel bool) string {
	roots := append([]*Term{}, q.Assume...)
	if q.Goal != nil {
		roots = append(roots, q.Goal)
	}
	// collect
	refs := map[int]int{}
	var order []*Term
	seen := map[int]bool{}
	usedSyms := map[string]bool{}
	usedSorts := map[*Sort]bool{}
	var markSort func(s *Sort)
	markSort = func(s *Sort) {
		if s == nil || usedSorts[s] {
			return
		}
		usedSorts[s] = true
		markSort(s.Key)
		markSort(s.Elem)
		for _, f := range s.Fields {
			markSort(f.Sort)
		}
	}
	var walk func(t *Term)
	walk = func(t *Term) {
		refs[t.id]++
		if seen[t.id] {
			return
		}
		seen[t.id] = true
		markSort(t.Sort)
		for _, b := range t.Bound {
			markSort(b.Sort)
		}
		if t.Op == "app" {
			usedSyms[t.Name] = true
		}
		for _, a := range t.Args {
			walk(a)
		}
		order = append(order, t) // post-order
	}
	for _, r := range roots {
		walk(r)
	}
	// symbols used transitively through define-funs
	var addDeps func(sym string)
	addDeps = func(sym string) {
		for _, d := range c.symDeps[sym] {
			if !usedSyms[d] {
				usedSyms[d] = true
				addDeps(d)
			}
		}
	}
	for s := range usedSyms {
		addDeps(s)
	}
	for s := range usedSyms {
		if f, ok := c.funcs[s]; ok {
			for _, p := range f.Params {
				markSort(p)
			}
			markSort(f.Ret)
		}
	}
	var sb strings.Builder
	fmt.Fprintf(&sb, "; obligation %s\n", q.Name)
	if q.Comment != "" {
		for _, l := range strings.Split(q.Comment, "\n") {
			fmt.Fprintf(&sb, "; %s\n", l)
		}
	}
	if wantModel {
		sb.WriteString("(set-option :produce-models true)\n")
	}
	sb.WriteString("(set-logic ALL)\n")
	// sorts: dependencies (field sorts) first
	var sortOrder []*Sort
	emitted := map[*Sort]bool{}
	var emit func(s *Sort)
	emit = func(s *Sort) {
		if s == nil || emitted[s] {
			return
		}
		emitted[s] = true
		emit(s.Key)
		emit(s.Elem)
		for _, f := range s.Fields {
			emit(f.Sort)
		}
		if s.Kind == KUnint || s.Kind == KData {
			sortOrder = append(sortOrder, s)
		}
	}
	for _, s := range c.Sorts.order {
		if usedSorts[s] {
			emit(s)
		}
	}
	for _, s := range sortOrder {
		switch s.Kind {
		case KUnint:
			fmt.Fprintf(&sb, "(declare-sort %s 0)\n", s.Name)
		case KData:
			fmt.Fprintf(&sb, "(declare-datatypes ((%s 0)) (((%s", s.Name, s.Ctor)
			for _, f := range s.Fields {
				fmt.Fprintf(&sb, " (%s %s)", f.Sel, f.Sort.Name)
			}
			sb.WriteString("))))\n")
		}
	}
	// uninterpreted functions (sorted)
	var fnames []string
	for s := range usedSyms {
		if _, ok := c.funcs[s]; ok {
			fnames = append(fnames, s)
		}
	}
	sort.Strings(fnames)
	for _, n := range fnames {
		f := c.funcs[n]
		fmt.Fprintf(&sb, "(declare-fun %s (", smtSym(n))
		for i, p := range f.Params {
			if i > 0 {
				sb.WriteByte(' ')
			}
			sb.WriteString(p.Name)
		}
		fmt.Fprintf(&sb, ") %s)\n", f.Ret.Name)
	}
	// prelude define-funs in registration order
	for _, n := range c.defOrd {
		if usedSyms[n] {
			if sig, ok := c.defSigs[n]; ok && q.Abstract[n] {
				fmt.Fprintf(&sb, "(declare-fun %s (", smtSym(n))
				for i, p := range sig.Params {
					if i > 0 {
						sb.WriteByte(' ')
					}
					sb.WriteString(p.Name)
				}
				fmt.Fprintf(&sb, ") %s)\n", sig.Ret.Name)
				continue
			}
			sb.WriteString(c.defs[n])
			sb.WriteByte('\n')
		}
	}
	// constants
	var cnames []string
	for _, t := range order {
		if t.Op == "var" {
			cnames = append(cnames, t.Name)
		}
	}
	sort.Strings(cnames)
	for _, n := range cnames {
		fmt.Fprintf(&sb, "(declare-const %s %s)\n", smtSym(n), c.consts[n].Name)
	}
	// axioms for used symbols
	var axs []string
	for s := range usedSyms {
		axs = append(axs, c.axioms[s]...)
	}
	sort.Strings(axs)
	for _, a := range axs {
		sb.WriteString(a)
		sb.WriteByte('\n')
	}
	for _, e := range q.Extra {
		sb.WriteString(e)
		sb.WriteByte('\n')
	}
	// shared closed subterms
	names := map[int]string{}
	for _, t := range order {
		if t.Op != "app" && t.Op != "forall" && t.Op != "exists" {
			continue
		}
		if t.hasBound || len(t.Args) == 0 {
			continue
		}
		if refs[t.id] < 2 {
			continue
		}
		var body strings.Builder
		c.printTerm(&body, t, withoutSelf(names, t.id))
		n := fmt.Sprintf("$t%d", t.id)
		fmt.Fprintf(&sb, "(define-fun %s () %s %s)\n", n, t.Sort.Name, body.String())
		names[t.id] = n
	}
	for _, a := range q.Assume {
		sb.WriteString("(assert ")
		c.printTerm(&sb, a, names)
		sb.WriteString(")\n")
	}
	if q.Goal != nil {
		sb.WriteString("(assert (not ")
		c.printTerm(&sb, q.Goal, names)
		sb.WriteString("))\n")
	}
	sb.WriteString("(check-sat)\n")
	if wantModel && len(cnames) > 0 {
		// values of the declared constants only (function inputs, abstract pre-state, havoc values)
		sb.WriteString("(get-value (")
		seenC := map[string]bool{}
		for _, n := range cnames {
			if seenC[n] {
				continue
			}
			seenC[n] = true
			sb.WriteString(smtSym(n))
			sb.WriteByte(' ')
		}
		sb.WriteString("))\n")
	}
	return sb.String()
}

func withoutSelf(names map[int]string, id int) map[int]string {
	if _, ok := names[id]; !ok {
		return names
	}
	m := map[int]string{}
	for k, v := range names {
		if k != id {
			m[k] = v
		}
	}
	return m
}

// collectApps returns all application subterms with the given function name.
func collectApps(roots []*Term, pred func(*Term) bool) []*Term {
	seen := map[int]bool{}
	var out []*Term
	var walk func(t *Term)
	walk = func(t *Term) {
		if seen[t.id] {
			return
		}
		seen[t.id] = true
		for _, a := range t.Args {
			walk(a)
		}
		if t.Op == "app" && pred(t) {
			out = append(out, t)
		}
	}
	for _, r := range roots {
		walk(r)
	}
	return out
}

// AbstractNL replaces nonlinear multiplication / division by uninterpreted functions. A goal proved under
// this abstraction is proved (the UFs admit the real interpretation); a 'sat' answer is meaningless.
func (c *TermCtx) AbstractNL(t *Term) *Term {
	memo := map[*Term]*Term{}
	var rec func(x *Term) *Term
	rec = func(x *Term) *Term {
		if r, ok := memo[x]; ok {
			return r
		}
		var r *Term
		switch x.Op {
		case "var", "int", "bool", "bound":
			r = x
		case "forall", "exists":
			r = c.Quant(x.Op == "forall", x.Bound, rec(x.Args[0]))
		default:
			args := make([]*Term, len(x.Args))
			for i, a := range x.Args {
				args[i] = rec(a)
			}
			switch {
			case x.Op == "app" && c.nonlinearDef(x.Name) && nonConstArgs(args) >= 2:
				// defined nonlinear functions (dec_mul, dec_quo, ...) with two or more non-constant arguments
				r = c.UF("nl_"+x.Name, x.Sort, args...)
			case x.Name == "*" && len(args) == 2 && args[0].Op != "int" && args[1].Op != "int":
				a, b := args[0], args[1]
				if a.id > b.id {
					a, b = b, a
				}
				r = c.UF("nl_mul", SInt, a, b)
			case (x.Name == "div" || x.Name == "mod" || x.Name == "go_quo" || x.Name == "go_rem" || x.Name == "goquo" || x.Name == "gorem") && len(args) == 2 && args[1].Op != "int":
				r = c.UF("nl_"+x.Name, SInt, args[0], args[1])
			default:
				same := true
				for i := range args {
					if args[i] != x.Args[i] {
						same = false
					}
				}
				if same {
					r = x
				} else {
					r = c.rebuild(x, args)
				}
			}
		}
		memo[x] = r
		return r
	}
	return rec(t)
}

// nonlinearDef: name is a define-fun whose text (or that of a definition it uses) contains * div mod.
func (c *TermCtx) nonlinearDef(name string) bool {
	seen := map[string]bool{}
	var rec func(n string) bool
	rec = func(n string) bool {
		txt, ok := c.defs[n]
		if !ok || seen[n] {
			return false
		}
		seen[n] = true
		if k := strings.Index(txt, ")"); k >= 0 {
			body := txt[k:]
			if strings.Contains(body, "(* ") || strings.Contains(body, "(div ") || strings.Contains(body, "(mod ") {
				return true
			}
		}
		for _, d := range c.symDeps[n] {
			if rec(d) {
				return true
			}
		}
		return false
	}
	return rec(name)
}

func nonConstArgs(args []*Term) int {
	n := 0
	for _, a := range args {
		if a.Op != "int" {
			n++
		}
	}
	return n
}
