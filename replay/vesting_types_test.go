package types

// Replay driver for x/vesting/types (C08, C09). Injected with `go test -overlay`; never written to /repo.
// Calls the real schedule / account functions and compares with brute-force oracles taken from the property text.

import (
	"encoding/json"
	"fmt"
	"math/rand"
	"os"
	"strings"
	"testing"
	"time"

	sdkmath "cosmossdk.io/math"
	sdk "github.com/cosmos/cosmos-sdk/types"
	authtypes "github.com/cosmos/cosmos-sdk/x/auth/types"
	sdkvesting "github.com/cosmos/cosmos-sdk/x/auth/vesting/types"
)

type vrPeriod struct {
	Length int64            `json:"length"`
	Amount map[string]int64 `json:"amount"`
}
type vrSched struct {
	Start   int64      `json:"start"`
	Periods []vrPeriod `json:"periods"`
}
type vrInput struct {
	Func string           `json:"func"`
	A    vrSched          `json:"a"`
	B    vrSched          `json:"b"`
	T    int64            `json:"t"`
	DF   map[string]int64 `json:"delegated_free,omitempty"`
	DV   map[string]int64 `json:"delegated_vesting,omitempty"`
}
type vrReq struct {
	Mode       string                     `json:"mode"`
	Obligation string                     `json:"obligation"`
	Model      map[string]json.RawMessage `json:"model"`
	Input      json.RawMessage            `json:"input"`
	Seed       int64                      `json:"seed"`
	Budget     int                        `json:"budget"`
}
type vrOut struct {
	Verdict string      `json:"verdict"`
	Input   interface{} `json:"input,omitempty"`
	Detail  interface{} `json:"detail,omitempty"`
	Cases   int         `json:"cases"`
	Bound   string      `json:"bound,omitempty"`
	KnownID string      `json:"known_id,omitempty"`
}

func vrCoins(m map[string]int64) sdk.Coins {
	cs := sdk.Coins{}
	for d, a := range m {
		if a > 0 {
			cs = cs.Add(sdk.NewCoin(d, sdkmath.NewInt(a)))
		}
	}
	return cs
}
func vrPeriods(ps []vrPeriod) sdkvesting.Periods {
	out := make(sdkvesting.Periods, len(ps))
	for i, p := range ps {
		out[i] = sdkvesting.Period{Length: p.Length, Amount: vrCoins(p.Amount)}
	}
	return out
}
func vrTotal(ps []vrPeriod) sdk.Coins {
	t := sdk.Coins{}
	for _, p := range ps {
		t = t.Add(vrCoins(p.Amount)...)
	}
	return t
}
func vrEnd(s vrSched) int64 {
	e := s.Start
	for _, p := range s.Periods {
		e += p.Length
	}
	return e
}

// released: sum of all periods ended by t, zero up to (and at) the start -- the property's definition.
func vrReleased(start int64, ps sdkvesting.Periods, t int64) sdk.Coins {
	out := sdk.Coins{}
	if t <= start {
		return out
	}
	at := start
	for _, p := range ps {
		at += p.Length
		if at <= t {
			out = out.Add(p.Amount...)
		}
	}
	return out
}

// ended: like released but without the "zero at the start instant" convention (pure event semantics)
func vrEnded(start int64, ps sdkvesting.Periods, t int64) sdk.Coins {
	out := sdk.Coins{}
	at := start
	for _, p := range ps {
		at += p.Length
		if at <= t {
			out = out.Add(p.Amount...)
		}
	}
	return out
}
func vrEq(a, b sdk.Coins) bool { return a.IsAllLTE(b) && b.IsAllLTE(a) }

func vrInstants(ss ...vrSched) []int64 {
	seen := map[int64]bool{}
	var out []int64
	add := func(x int64) {
		for _, d := range []int64{-1, 0, 1} {
			if !seen[x+d] {
				seen[x+d] = true
				out = append(out, x+d)
			}
		}
	}
	for _, s := range ss {
		at := s.Start
		add(at)
		for _, p := range s.Periods {
			at += p.Length
			add(at)
		}
	}
	return out
}

func vrCatch(f func()) (msg string) {
	defer func() {
		if r := recover(); r != nil {
			msg = fmt.Sprint(r)
		}
	}()
	f()
	return ""
}

// vrCheck runs one case; returns a description of the violation or "".
func vrCheck(in vrInput) (bad string, known string) {
	pa, pb := vrPeriods(in.A.Periods), vrPeriods(in.B.Periods)
	switch in.Func {
	case "ReadSchedule", "ReadPastPeriodCount":
		end, tot := vrEnd(in.A), vrTotal(in.A.Periods)
		var got sdk.Coins
		var cnt int
		if p := vrCatch(func() {
			got = ReadSchedule(in.A.Start, end, pa, tot, in.T)
			cnt = ReadPastPeriodCount(in.A.Start, end, pa, in.T)
		}); p != "" {
			return "panic: " + p, ""
		}
		want := vrReleased(in.A.Start, pa, in.T)
		if !vrEq(got, want) {
			return fmt.Sprintf("ReadSchedule(t=%d) = %s, sum of periods ended by t = %s", in.T, got, want), ""
		}
		wc := 0
		if in.T > in.A.Start {
			at := in.A.Start
			for _, p := range pa {
				at += p.Length
				if at <= in.T {
					wc++
				}
			}
		}
		if cnt != wc {
			return fmt.Sprintf("ReadPastPeriodCount(t=%d) = %d, number of events by t = %d", in.T, cnt, wc), ""
		}
	case "DisjunctPeriods", "ConjunctPeriods":
		var s, e int64
		var out sdkvesting.Periods
		ca, cb := append(sdkvesting.Periods{}, pa...), append(sdkvesting.Periods{}, pb...)
		if p := vrCatch(func() {
			if in.Func == "DisjunctPeriods" {
				s, e, out = DisjunctPeriods(in.A.Start, in.B.Start, ca, cb)
			} else {
				s, e, out = ConjunctPeriods(in.A.Start, in.B.Start, ca, cb)
			}
		}); p != "" {
			return "panic: " + p, ""
		}
		if s != Min64(in.A.Start, in.B.Start) {
			return fmt.Sprintf("start = %d, want min", s), ""
		}
		at := s
		for _, p := range out {
			if p.Length < 0 {
				return fmt.Sprintf("negative period length %d in result", p.Length), ""
			}
			at += p.Length
		}
		if at != e {
			return fmt.Sprintf("end = %d but periods end at %d", e, at), ""
		}
		for _, t := range vrInstants(in.A, in.B) {
			ra, rb := vrEnded(in.A.Start, pa, t), vrEnded(in.B.Start, pb, t)
			var want sdk.Coins
			if in.Func == "DisjunctPeriods" {
				want = ra.Add(rb...)
			} else {
				want = ra.Min(rb)
			}
			if got := vrEnded(s, out, t); !vrEq(got, want) {
				return fmt.Sprintf("%s: at t=%d the result has released %s, inputs give %s", in.Func, t, got, want), ""
			}
		}
	case "AlignSchedules":
		ca, cb := append(sdkvesting.Periods{}, pa...), append(sdkvesting.Periods{}, pb...)
		var s, e int64
		if p := vrCatch(func() { s, e = AlignSchedules(in.A.Start, in.B.Start, ca, cb) }); p != "" {
			if len(pa) == 0 || len(pb) == 0 {
				return "", ""
			}
			return "panic: " + p, ""
		}
		if s != Min64(in.A.Start, in.B.Start) {
			return "start is not the minimum", ""
		}
		for _, t := range vrInstants(in.A, in.B) {
			if len(pa) > 0 && !vrEq(vrEnded(s, ca, t), vrEnded(in.A.Start, pa, t)) {
				return fmt.Sprintf("AlignSchedules moved an event of schedule A (t=%d)", t), ""
			}
			if len(pb) > 0 && !vrEq(vrEnded(s, cb, t), vrEnded(in.B.Start, pb, t)) {
				return fmt.Sprintf("AlignSchedules moved an event of schedule B (t=%d)", t), ""
			}
		}
		we := Max64(vrEnd(vrSched{s, vrUn(ca)}), vrEnd(vrSched{s, vrUn(cb)}))
		if e != we {
			return fmt.Sprintf("end = %d, want %d", e, we), ""
		}
	case "ComputeClawback", "LockedCoins":
		// A = lockup, B = vesting, both anchored at A.Start; totals must agree
		tl, tv := vrTotal(in.A.Periods), vrTotal(in.B.Periods)
		if !vrEq(tl, tv) || tl.IsZero() {
			return "", ""
		}
		start := in.A.Start
		var va *ClawbackVestingAccount
		if p := vrCatch(func() {
			va = NewClawbackVestingAccount(authtypes.NewBaseAccountWithAddress(sdk.AccAddress("verifreplayaddr_____")), sdk.AccAddress("verifreplayfunder___"),
				tl, time.Unix(start, 0), pa, pb, nil)
		}); p != "" {
			return "NewClawbackVestingAccount panicked: " + p, ""
		}
		if err := va.Validate(); err != nil {
			return "", "" // outside the representation invariant (e.g. start == end)
		}
		vested := vrReleased(start, pb, in.T)
		unlocked := vrReleased(start, pa, in.T)
		if in.Func == "LockedCoins" {
			va.DelegatedFree, va.DelegatedVesting = vrCoins(in.DF), vrCoins(in.DV)
			var got sdk.Coins
			if p := vrCatch(func() { got = va.LockedCoins(time.Unix(in.T, 0)) }); p != "" {
				return "LockedCoins panicked: " + p, ""
			}
			uv := unlocked.Min(vested)
			d := va.DelegatedFree.Add(va.DelegatedVesting...)
			// max(original - unlockedVested - delegated, unvested), per denomination
			want := sdk.Coins{}
			for _, c := range tl {
				x := c.Amount.Sub(uv.AmountOf(c.Denom)).Sub(d.AmountOf(c.Denom))
				y := c.Amount.Sub(vested.AmountOf(c.Denom))
				if y.GT(x) {
					x = y
				}
				if x.IsPositive() {
					want = want.Add(sdk.NewCoin(c.Denom, x))
				}
			}
			if !vrEq(got, want) {
				return fmt.Sprintf("LockedCoins(t=%d) = %s, max(original-unlockedVested-delegated, unvested) = %s", in.T, got, want), ""
			}
			return "", ""
		}
		var na ClawbackVestingAccount
		var back sdk.Coins
		orig := tl
		if p := vrCatch(func() { na, back = va.ComputeClawback(in.T) }); p != "" {
			return "ComputeClawback panicked: " + p, ""
		}
		if !vrEq(back, orig.Sub(vested...)) {
			return fmt.Sprintf("clawback amount %s, unvested is %s", back, orig.Sub(vested...)), ""
		}
		if !vrEq(na.OriginalVesting, vested) {
			return fmt.Sprintf("account keeps %s, vested is %s", na.OriginalVesting, vested), ""
		}
		for _, t := range vrInstants(in.A, in.B) {
			want := vrEnded(start, pa, t).Min(vested)
			if t < start {
				want = sdk.Coins{}
			}
			if got := vrEnded(start, na.LockupPeriods, t); !vrEq(got, want) {
				return fmt.Sprintf("after clawback the lockup has released %s at t=%d, min(old lockup, vested) = %s", got, t, want), ""
			}
		}
		if !vrEq(na.VestingPeriods.TotalAmount(), vested) || !vrEq(na.LockupPeriods.TotalAmount(), vested) {
			return "schedule totals do not match the kept amount", ""
		}
		if na.EndTime < start {
			return "end time before start time", ""
		}
		if err := na.Validate(); err != nil {
			if na.EndTime == start && strings.Contains(err.Error(), "start-time must be before end-time") {
				return "account left by ComputeClawback fails Validate(): " + err.Error(), "F7"
			}
			return "account left by ComputeClawback fails Validate(): " + err.Error(), ""
		}
	}
	return "", ""
}

func vrUn(ps sdkvesting.Periods) []vrPeriod {
	out := make([]vrPeriod, len(ps))
	for i, p := range ps {
		m := map[string]int64{}
		for _, c := range p.Amount {
			m[c.Denom] = c.Amount.Int64()
		}
		out[i] = vrPeriod{p.Length, m}
	}
	return out
}

// ---- decoding of solver models (JSON produced by /verif/check)

type vrVal struct {
	Ctor    string              `json:"ctor"`
	Args    []json.RawMessage   `json:"args"`
	Default json.RawMessage     `json:"default"`
	Entries [][]json.RawMessage `json:"entries"`
}

func vrInt(raw json.RawMessage) (int64, bool) {
	var n int64
	if json.Unmarshal(raw, &n) == nil {
		return n, true
	}
	return 0, false
}

func vrDecodeCoins(raw json.RawMessage) map[string]int64 {
	out := map[string]int64{}
	var v vrVal
	if json.Unmarshal(raw, &v) != nil {
		return out
	}
	names := []string{"aaa", "bbb", "ccc"}
	for i, e := range v.Entries {
		if i >= 3 || len(e) != 2 {
			break
		}
		if n, ok := vrInt(e[1]); ok && n > 0 && n < 1<<40 {
			out[names[i]] = n
		}
	}
	return out
}

func vrDecodeSched(start int64, raw json.RawMessage) (vrSched, bool) {
	var sl vrVal
	if json.Unmarshal(raw, &sl) != nil || len(sl.Args) != 2 {
		return vrSched{}, false
	}
	n, ok := vrInt(sl.Args[1])
	if !ok || n < 0 || n > 6 {
		return vrSched{}, false
	}
	var arr vrVal
	if json.Unmarshal(sl.Args[0], &arr) != nil {
		return vrSched{}, false
	}
	s := vrSched{Start: start}
	for i := int64(0); i < n; i++ {
		el := arr.Default
		for _, e := range arr.Entries {
			if len(e) == 2 {
				if k, ok := vrInt(e[0]); ok && k == i {
					el = e[1]
				}
			}
		}
		var p vrVal
		if json.Unmarshal(el, &p) != nil || len(p.Args) != 2 {
			return vrSched{}, false
		}
		l, ok := vrInt(p.Args[0])
		if !ok || l < 0 || l > 1<<40 {
			return vrSched{}, false
		}
		s.Periods = append(s.Periods, vrPeriod{l, vrDecodeCoins(p.Args[1])})
	}
	return s, true
}

func vrFromModel(fn string, m map[string]json.RawMessage) (vrInput, bool) {
	get := func(name string) (int64, bool) {
		if r, ok := m["types."+fn+"."+name]; ok {
			return vrInt(r)
		}
		return 0, false
	}
	in := vrInput{Func: fn}
	switch fn {
	case "ReadSchedule", "ReadPastPeriodCount":
		st, ok1 := get("startTime")
		t, ok2 := get("readTime")
		r, ok3 := m["types."+fn+".periods"]
		if !ok1 || !ok2 || !ok3 {
			return in, false
		}
		s, ok := vrDecodeSched(st, r)
		in.A, in.T = s, t
		return in, ok
	case "DisjunctPeriods", "ConjunctPeriods", "AlignSchedules":
		na, nb := "startTimePeriodsA", "startTimePeriodsB"
		if fn != "DisjunctPeriods" {
			na, nb = "startTimePeriodA", "startTimePeriodB"
		}
		sa, ok1 := get(na)
		sb, ok2 := get(nb)
		ra, ok3 := m["types."+fn+".periodsA"]
		rb, ok4 := m["types."+fn+".periodsB"]
		if !ok1 || !ok2 || !ok3 || !ok4 {
			return in, false
		}
		a, oka := vrDecodeSched(sa, ra)
		b, okb := vrDecodeSched(sb, rb)
		in.A, in.B = a, b
		return in, oka && okb
	}
	return in, false
}

// ---- small-scope enumeration

func vrGenPeriods(maxN int, denoms []string) [][]vrPeriod {
	lens := []int64{0, 1, 2, 5}
	amts := []int64{0, 1, 2, 7}
	var single []vrPeriod
	for _, l := range lens {
		for _, a := range amts {
			single = append(single, vrPeriod{l, map[string]int64{denoms[0]: a}})
			if len(denoms) > 1 && a != 0 {
				single = append(single, vrPeriod{l, map[string]int64{denoms[0]: a, denoms[1]: 3}})
				single = append(single, vrPeriod{l, map[string]int64{denoms[1]: a}})
			}
		}
	}
	out := [][]vrPeriod{{}}
	cur := [][]vrPeriod{{}}
	for n := 1; n <= maxN; n++ {
		var next [][]vrPeriod
		for _, pre := range cur {
			for _, p := range single {
				next = append(next, append(append([]vrPeriod{}, pre...), p))
			}
		}
		out = append(out, next...)
		cur = next
		if len(out) > 200000 {
			break
		}
	}
	return out
}

func TestVerifReplayVestingTypes(t *testing.T) {
	raw, err := os.ReadFile(os.Getenv("VERIF_REPLAY_IN"))
	if err != nil {
		t.Skip("no replay request")
	}
	var req vrReq
	if err := json.Unmarshal(raw, &req); err != nil {
		t.Fatal(err)
	}
	out := vrOut{Verdict: "NOT-REPRODUCED"}
	try := func(in vrInput) bool {
		out.Cases++
		bad, known := vrCheck(in)
		if bad != "" && known == "" {
			out.Verdict, out.Input, out.Detail, out.KnownID = "REPRODUCED", in, bad, ""
			return true
		}
		if bad != "" && known != "" && out.KnownID == "" && out.Verdict != "REPRODUCED" {
			// remember a known-finding witness, keep looking for anything else
			out.KnownID = known
			out.Input, out.Detail = in, bad
		}
		return false
	}
	funcs := []string{"ReadSchedule", "DisjunctPeriods", "ConjunctPeriods", "AlignSchedules", "ComputeClawback", "LockedCoins"}
	if req.Mode == "input" {
		var in vrInput
		if err := json.Unmarshal(req.Input, &in); err != nil {
			t.Fatal(err)
		}
		bad, known := vrCheck(in)
		if bad != "" {
			out.Verdict, out.Input, out.Detail, out.KnownID = "REPRODUCED", in, bad, known
		}
		vrWrite(t, out)
		return
	}
	if req.Mode == "model" {
		fn := ""
		for _, f := range append(funcs, "ReadPastPeriodCount") {
			if strings.Contains(req.Obligation, "."+f+"#") {
				fn = f
			}
		}
		for _, m := range []string{"GetVestedCoins", "GetUnlockedCoins", "GetVestingCoins", "GetLockedUpCoins", "GetUnlockedVestedCoins", "GetLockedUpVestedCoins"} {
			if strings.Contains(req.Obligation, "."+m+"#") {
				fn = "LockedCoins"
			}
		}
		if strings.Contains(req.Obligation, "GetPassedPeriodCount") || strings.Contains(req.Obligation, "NewClawbackVestingAccount") {
			fn = "ComputeClawback"
		}
		if fn == "" {
			vrWrite(t, out)
			return
		}
		if in, ok := vrFromModel(fn, req.Model); ok {
			if try(in) {
				vrWrite(t, out)
				return
			}
		}
		funcs = []string{fn}
		if fn == "ReadPastPeriodCount" {
			funcs = []string{"ReadSchedule"}
		}
	}
	// bounded sweep
	out.Bound = "schedules with <= 2 periods (3 for single-schedule functions), lengths in {0,1,2,5}, amounts in {0,1,2,7} over one or two denominations, starts in {0,3,10}, every instant around every event; plus seeded random cases"
	budget := req.Budget
	if budget <= 0 {
		budget = 20000
	}
	rng := rand.New(rand.NewSource(req.Seed))
	one := vrGenPeriods(3, []string{"aaa"})
	two := vrGenPeriods(2, []string{"aaa", "bbb"})
	all := append(append([][]vrPeriod{}, two...), one...)
	for _, fn := range funcs {
		n := 0
	fnloop:
		for n < budget {
			a := all[rng.Intn(len(all))]
			b := all[rng.Intn(len(all))]
			if n < len(two) {
				a = two[n%len(two)]
			}
			sa, sb := []int64{0, 3, 10}[rng.Intn(3)], []int64{0, 3, 10}[rng.Intn(3)]
			in := vrInput{Func: fn, A: vrSched{sa, a}, B: vrSched{sb, b}}
			switch fn {
			case "ReadSchedule":
				for _, tt := range vrInstants(in.A) {
					in.T = tt
					n++
					if try(in) {
						break fnloop
					}
				}
			case "ComputeClawback", "LockedCoins":
				// need equal totals: derive B from A by regrouping
				in.B = vrSched{sa, vrRegroup(a, rng)}
				in.A.Start = sa
				for _, tt := range vrInstants(in.A, in.B) {
					in.T = tt
					if fn == "LockedCoins" {
						in.DF = map[string]int64{"aaa": int64(rng.Intn(4))}
						in.DV = map[string]int64{"aaa": int64(rng.Intn(2)), "bbb": int64(rng.Intn(3))}
					}
					n++
					if try(in) {
						break fnloop
					}
				}
			default:
				n++
				if try(in) {
					break fnloop
				}
			}
		}
		if out.Verdict == "REPRODUCED" {
			break
		}
	}
	vrWrite(t, out)
}

// vrRegroup builds a second schedule with the same total as ps but different event grouping / lengths.
func vrRegroup(ps []vrPeriod, rng *rand.Rand) []vrPeriod {
	tot := map[string]int64{}
	for _, p := range ps {
		for d, a := range p.Amount {
			tot[d] += a
		}
	}
	k := 1 + rng.Intn(3)
	out := make([]vrPeriod, k)
	for i := range out {
		out[i] = vrPeriod{[]int64{0, 1, 2, 5}[rng.Intn(4)], map[string]int64{}}
	}
	for d, a := range tot {
		for a > 0 {
			i := rng.Intn(k)
			x := 1 + rng.Int63n(a)
			out[i].Amount[d] += x
			a -= x
		}
	}
	return out
}

func vrWrite(t *testing.T, out vrOut) {
	js, _ := json.MarshalIndent(out, "", " ")
	if err := os.WriteFile(os.Getenv("VERIF_REPLAY_OUT"), js, 0o644); err != nil {
		t.Fatal(err)
	}
}
