package werc20_test

// Replay driver for finding V1 (C02, agent V): the WERC20 precompile runs Deposit for the fallback / receive entry in
// read-only frames (CALLCODE / DELEGATECALL / STATICCALL): RunSetup's write protection is `readOnly && isTransaction(method.Name)`
// and the ABI's fallback / receive methods have the empty name. CALLCODE passes a caller-chosen value WITHOUT transferring it;
// Deposit "refunds" it: caller +value, precompile address -value. Coins sitting on the wrapped-token address are taken.
// Run: copy to precompiles/werc20/zz_verif_replay_test.go (or -overlay) and
//   go test -count=1 -run 'TestPrecompileTestSuite/TestVerifReplayWerc20CallCode' ./precompiles/werc20/

import (
	"encoding/json"
	"fmt"
	"math/big"
	"os"

	sdk "github.com/cosmos/cosmos-sdk/types"
	"github.com/ethereum/go-ethereum/common"
	ethtypes "github.com/ethereum/go-ethereum/core/types"
	"github.com/ethereum/go-ethereum/core/vm"

	"github.com/haqq-network/haqq/precompiles/werc20"
	utiltx "github.com/haqq-network/haqq/testutil/tx"
	erc20types "github.com/haqq-network/haqq/x/erc20/types"
)

func (s *PrecompileTestSuite) TestVerifReplayWerc20CallCode() {
	raw, err0 := os.ReadFile(os.Getenv("VERIF_REPLAY_IN"))
	if err0 != nil {
		s.T().Skip("no replay request")
	}
	var req struct {
		KnownIDs []string `json:"known_ids"`
	}
	s.Require().NoError(json.Unmarshal(raw, &req))
	s.SetupTest()
	ctx := s.network.GetContext()
	app := s.network.App
	tokenPair := erc20types.NewTokenPair(utiltx.GenerateAddress(), s.bondDenom, erc20types.OWNER_MODULE)
	precompile, err := werc20.NewPrecompile(tokenPair, app.BankKeeper, app.AuthzKeeper, app.TransferKeeper)
	s.Require().NoError(err)
	s.Require().NoError(app.EvmKeeper.AddEVMExtensions(ctx, precompile))
	paddr := precompile.Address()
	attacker := s.keyring.GetAddr(0)
	victim := s.keyring.GetAccAddr(1)
	// somebody's coins sit on the wrapped-token address (a plain bank send to the token "contract")
	s.Require().NoError(app.BankKeeper.SendCoins(ctx, victim, paddr.Bytes(), sdk.NewCoins(sdk.NewInt64Coin(s.bondDenom, 500))))
	bal := func(a common.Address) *big.Int { return app.BankKeeper.GetBalance(ctx, a.Bytes(), s.bondDenom).Amount.BigInt() }
	a0, p0 := bal(attacker), bal(paddr)
	supply0 := app.BankKeeper.GetSupply(ctx, s.bondDenom).Amount.BigInt()

	stateDB := s.network.GetStateDB()
	cfg, err := app.EvmKeeper.EVMConfig(ctx, ctx.BlockHeader().ProposerAddress, app.EvmKeeper.ChainID())
	s.Require().NoError(err)
	msg := ethtypes.NewMessage(attacker, &paddr, 0, big.NewInt(0), 1000000, big.NewInt(0), big.NewInt(0), big.NewInt(0), nil, nil, true)
	evm := app.EvmKeeper.NewEVM(ctx, msg, cfg, nil, stateDB)
	params := app.EvmKeeper.GetParams(ctx)
	active := params.GetActivePrecompilesAddrs()
	pm := app.EvmKeeper.Precompiles(active...)
	s.Require().NoError(vm.ValidatePrecompiles(pm, active))
	evm.WithPrecompiles(pm, active)
	_, isPre := evm.Precompile(paddr)
	s.Require().True(isPre, "werc20 registered as a precompile")

	// what a contract executing CALLCODE(gas, WISLM, 500, empty calldata) does, with the attacker as the executing account
	_, _, err = evm.CallCode(vm.AccountRef(attacker), paddr, nil, 1000000, big.NewInt(500))
	s.T().Logf("CallCode error: %v", err)
	cerr := stateDB.Commit()
	s.T().Logf("Commit error: %v", cerr)
	a1, p1 := bal(attacker), bal(paddr)
	supply1 := app.BankKeeper.GetSupply(ctx, s.bondDenom).Amount.BigInt()
	s.T().Logf("attacker %s -> %s, precompile address %s -> %s, supply %s -> %s", a0, a1, p0, p1, supply0, supply1)
	// C02: nobody sent the attacker anything, no value was transferred into the precompile
	res := map[string]interface{}{"verdict": "NOT-REPRODUCED", "cases": 1,
		"bound": "one CALLCODE(gas, WERC20 precompile, value 500, empty calldata) frame on the real EVM with 500 coins sitting on the precompile address, then StateDB.Commit",
		"detail": fmt.Sprintf("CallCode error: %v; attacker %s -> %s, precompile address %s -> %s, supply %s -> %s", err, a0, a1, p0, p1, supply0, supply1)}
	if a0.Cmp(a1) != 0 || p0.Cmp(p1) != 0 {
		res["verdict"] = "REPRODUCED"
		res["input"] = map[string]string{"id": "V1-werc20-readonly-deposit", "opcode": "CALLCODE", "value": "500", "calldata": "empty"}
		for _, k := range req.KnownIDs {
			if k == "V1-werc20-readonly-deposit" {
				res["known_id"] = k
			}
		}
	}
	js, _ := json.MarshalIndent(res, "", " ")
	s.Require().NoError(os.WriteFile(os.Getenv("VERIF_REPLAY_OUT"), js, 0o644))
}
