package distribution_test

// Replay driver for findings Y1 and Y2 (C16, query side of the distribution precompile, agent Y).
// Y1: DecCoin amounts are reported truncated to whole coins although labelled "precision 18": the native query's fractional part is lost.
// Y2: delegationRewards (and validatorDistributionInfo / delegationTotalRewards) run the SDK query handler on the LIVE context; the
//     handler increments the validator period (writes historical rewards, resets the current rewards), which a native gRPC query
//     never persists: a "view" call changes consensus state.
// Run: copy to precompiles/distribution/zz_verif_replay_query_test.go (or use -overlay) and
//   go test -count=1 -run 'TestPrecompileTestSuite/TestVerifReplayDistributionQuery' ./precompiles/distribution/

import (
	"encoding/json"
	"fmt"
	"math/big"
	"os"

	"cosmossdk.io/math"
	sdk "github.com/cosmos/cosmos-sdk/types"
	distrkeeper "github.com/cosmos/cosmos-sdk/x/distribution/keeper"
	distrtypes "github.com/cosmos/cosmos-sdk/x/distribution/types"
	"github.com/ethereum/go-ethereum/core/vm"

	cmn "github.com/haqq-network/haqq/precompiles/common"
	"github.com/haqq-network/haqq/precompiles/distribution"
)

func (s *PrecompileTestSuite) TestVerifReplayDistributionQuery() {
	raw, err0 := os.ReadFile(os.Getenv("VERIF_REPLAY_IN"))
	if err0 != nil {
		s.T().Skip("no replay request")
	}
	var req struct {
		KnownIDs []string `json:"known_ids"`
	}
	s.Require().NoError(json.Unmarshal(raw, &req))
	known := map[string]bool{}
	for _, k := range req.KnownIDs {
		known[k] = true
	}
	s.SetupTest()
	val := s.validators[0]
	// a delegation with rewards whose per-delegator share has a fractional part: allocate an odd number of base units plus a fraction
	s.prepareStakingRewards(stakingRewards{s.address.Bytes(), val, math.NewInt(1e18)})
	frac := sdk.NewDecCoins(sdk.NewDecCoinFromDec(s.bondDenom, sdk.MustNewDecFromStr("15.5")))
	s.app.DistrKeeper.AllocateTokensToValidator(s.ctx, val, frac)
	s.NextBlock()

	querier := distrkeeper.Querier{Keeper: s.app.DistrKeeper}
	nativeReq := &distrtypes.QueryDelegationRewardsRequest{DelegatorAddress: sdk.AccAddress(s.address.Bytes()).String(), ValidatorAddress: val.OperatorAddress}
	// the native answer, on a discarded branch as a gRPC query runs
	branch, _ := s.ctx.CacheContext()
	native, err := querier.DelegationRewards(branch, nativeReq)
	s.Require().NoError(err)
	s.Require().Equal(1, len(native.Rewards))
	before := s.app.DistrKeeper.GetValidatorCurrentRewards(s.ctx, val.GetOperator())

	method := s.precompile.Methods[distribution.DelegationRewardsMethod]
	contract := vm.NewContract(vm.AccountRef(s.address), s.precompile, big.NewInt(0), 1000000)
	bz, err := s.precompile.DelegationRewards(s.ctx, contract, &method, []interface{}{s.address, val.OperatorAddress})
	s.Require().NoError(err)
	var out []cmn.DecCoin
	s.Require().NoError(s.precompile.UnpackIntoInterface(&out, distribution.DelegationRewardsMethod, bz))
	s.Require().Equal(1, len(out))
	after := s.app.DistrKeeper.GetValidatorCurrentRewards(s.ctx, val.GetOperator())

	res := map[string]interface{}{"verdict": "NOT-REPRODUCED", "cases": 2,
		"bound": "one delegation with fractional pending rewards; delegationRewards of the precompile against the SDK querier on a discarded branch, and the validator's current-rewards record before / after the call"}
	var lines []string
	var ids []string
	unknown := false
	nativeMantissa := native.Rewards[0].Amount.BigInt()
	if out[0].Precision == 18 && out[0].Amount.Cmp(nativeMantissa) != 0 {
		lines = append(lines, fmt.Sprintf("Y1: native reward %s (18-decimal mantissa %s), precompile reports amount %s with precision %d", native.Rewards[0].Amount, nativeMantissa, out[0].Amount, out[0].Precision))
		ids = append(ids, "Y1")
		if !known["Y1"] {
			unknown = true
		}
	}
	if after.Period != before.Period || !after.Rewards.IsEqual(before.Rewards) {
		lines = append(lines, fmt.Sprintf("Y2: the view call changed consensus state: validator current rewards {period %d, %s} -> {period %d, %s}", before.Period, before.Rewards, after.Period, after.Rewards))
		ids = append(ids, "Y2-DelegationRewards")
		if !known["Y2-DelegationRewards"] {
			unknown = true
		}
	}
	if len(lines) > 0 {
		res["verdict"] = "REPRODUCED"
		res["detail"] = fmt.Sprint(lines)
		res["input"] = map[string]string{"id": "Y1,Y2-DelegationRewards", "delegator": s.address.Hex(), "validator": val.OperatorAddress}
		if !unknown {
			res["known_id"] = ids[0] // every reproduced deviation is a listed finding; the check wants one listed id
		}
	}
	js, _ := json.MarshalIndent(res, "", " ")
	s.Require().NoError(os.WriteFile(os.Getenv("VERIF_REPLAY_OUT"), js, 0o644))
}
