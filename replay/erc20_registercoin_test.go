package keeper_test

// Replay driver for finding X1 (C10, agent X): RegisterCoin tests IsDenomRegistered(Name) but registers the pair under Base, so a
// denomination whose display name differs from its base (the IBC voucher metadata of the repository's own tests) can be
// registered twice: two enabled module-owned token pairs mint and burn against one escrow of the same coin.
// Run: copy to x/erc20/keeper/zz_verif_replay_test.go (or use -overlay) and
//   go test -count=1 -run 'TestKeeperTestSuite/TestVerifReplayRegisterCoinTwice' ./x/erc20/keeper/

import (
	"encoding/json"
	"fmt"
	"os"

	sdk "github.com/cosmos/cosmos-sdk/types"

	coinomicstypes "github.com/haqq-network/haqq/x/coinomics/types"
)

func (suite *KeeperTestSuite) TestVerifReplayRegisterCoinTwice() {
	raw, err0 := os.ReadFile(os.Getenv("VERIF_REPLAY_IN"))
	if err0 != nil {
		suite.T().Skip("no replay request")
	}
	var req struct {
		KnownIDs []string `json:"known_ids"`
	}
	suite.Require().NoError(json.Unmarshal(raw, &req))
	suite.mintFeeCollector = true
	suite.SetupTest()
	// metadataIbc: Base "ibc/7F1D…", Name "ATOM channel-14"
	suite.Require().NoError(suite.app.BankKeeper.MintCoins(suite.ctx, coinomicstypes.ModuleName, sdk.Coins{sdk.NewInt64Coin(metadataIbc.Base, 1)}))
	p1, err1 := suite.app.Erc20Keeper.RegisterCoin(suite.ctx, metadataIbc)
	suite.Require().NoError(err1)
	suite.Commit()
	p2, err2 := suite.app.Erc20Keeper.RegisterCoin(suite.ctx, metadataIbc)
	res := map[string]interface{}{"verdict": "NOT-REPRODUCED", "cases": 1,
		"bound": "RegisterCoin called twice with the same metadata (Base ibc/…, Name 'ATOM channel-14') on the real keeper",
		"detail": fmt.Sprintf("first: %v; second: err=%v", p1, err2)}
	if err2 == nil && p2 != nil && p2.Erc20Address != p1.Erc20Address {
		n := 0
		for _, tp := range suite.app.Erc20Keeper.GetTokenPairs(suite.ctx) {
			if tp.Denom == metadataIbc.Base && tp.Enabled {
				n++
			}
		}
		res["verdict"] = "REPRODUCED"
		res["input"] = map[string]string{"id": "X1", "base": metadataIbc.Base, "name": metadataIbc.Name}
		res["detail"] = fmt.Sprintf("the second registration succeeded: contracts %s and %s, %d enabled pairs stored for denomination %s", p1.Erc20Address, p2.Erc20Address, n, metadataIbc.Base)
		for _, k := range req.KnownIDs {
			if k == "X1" {
				res["known_id"] = "X1"
			}
		}
	}
	js, _ := json.MarshalIndent(res, "", " ")
	suite.Require().NoError(os.WriteFile(os.Getenv("VERIF_REPLAY_OUT"), js, 0o644))
}
