package ics20_test

// Replay driver for precompiles/ics20 (C02). Injected with `go test -overlay`; never written to /repo.
// Whole-transaction scenarios against the real precompile, StateDB and keepers; the oracle is the property itself: an IBC
// transfer of the native coin escrows it (total supply unchanged) and the sender's bank balance falls by exactly the
// transaction value plus the transferred amount.

import (
	"encoding/json"
	"fmt"
	"math/big"
	"os"
	"strings"

	sdk "github.com/cosmos/cosmos-sdk/types"
	transfertypes "github.com/cosmos/ibc-go/v7/modules/apps/transfer/types"
	"github.com/ethereum/go-ethereum/common"
	"github.com/ethereum/go-ethereum/core/vm"

	"github.com/haqq-network/haqq/precompiles/ics20"
	testutiltx "github.com/haqq-network/haqq/testutil/tx"
	"github.com/haqq-network/haqq/utils"
)

type ipReq struct {
	Mode     string   `json:"mode"`
	KnownIDs []string `json:"known_ids"`
	Property string   `json:"property"` // run only the scenarios that test this property ("" = all)
}
type ipOut struct {
	Verdict string      `json:"verdict"`
	Input   interface{} `json:"input,omitempty"`
	Detail  interface{} `json:"detail,omitempty"`
	Cases   int         `json:"cases"`
	Bound   string      `json:"bound,omitempty"`
	KnownID string      `json:"known_id,omitempty"`
	Results []string    `json:"results,omitempty"`
}
type ipScenario struct {
	ID        string `json:"id"`
	Name      string `json:"name"`
	ViaCaller bool   `json:"via_contract"`
	Value     int64  `json:"tx_value"`
	Amount    int64  `json:"amount"`
	Revert    bool   `json:"frame_reverts"` // the call frame that made the precompile call reverts afterwards (C05)
}

func (s *PrecompileTestSuite) ipRun(sc ipScenario) string {
	s.SetupTest()
	method := s.precompile.Methods[ics20.TransferMethod]
	senderAcc := s.chainA.SenderAccount.GetAddress()
	receiver := s.chainB.SenderAccount.GetAddress()
	origin := common.BytesToAddress(senderAcc)
	caller := origin
	path := NewTransferPath(s.chainA, s.chainB)
	s.coordinator.Setup(path)
	if sc.ViaCaller {
		caller = testutiltx.GenerateAddress()
		if err := s.NewTransferAuthorization(s.ctx, s.app, caller, origin, path, maxUint256Coins, nil); err != nil {
			return "scenario: " + err.Error()
		}
	}
	contract := vm.NewContract(vm.AccountRef(caller), s.precompile, big.NewInt(0), 1000000)
	contract.CallerAddress = caller
	s.ctx = s.ctx.WithGasMeter(sdk.NewInfiniteGasMeter())
	args := []interface{}{path.EndpointA.ChannelConfig.PortID, path.EndpointA.ChannelID, utils.BaseDenom, big.NewInt(sc.Amount), origin,
		receiver.String(), s.chainB.GetTimeoutHeight(), uint64(0), "memo"}
	bal := func(a common.Address) *big.Int {
		return s.app.BankKeeper.GetBalance(s.ctx, a.Bytes(), utils.BaseDenom).Amount.BigInt()
	}
	supply0 := s.app.BankKeeper.GetSupply(s.ctx, utils.BaseDenom).Amount.BigInt()
	o0 := bal(origin)
	// top-level frame as evm.Call does it, then what the precompile's Run does first (flush the StateDB), then the method
	if s.stateDB.GetBalance(origin).Cmp(big.NewInt(sc.Value)) < 0 {
		return "scenario: insufficient balance"
	}
	if sc.ViaCaller {
		s.stateDB.SubBalance(origin, big.NewInt(sc.Value))
		s.stateDB.AddBalance(caller, big.NewInt(sc.Value))
	}
	if err := s.stateDB.Commit(); err != nil {
		return "scenario: " + err.Error()
	}
	snap := s.stateDB.Snapshot() // evm.Call snapshots on entering the frame that makes the precompile call
	escrow := transfertypes.GetEscrowAddress(path.EndpointA.ChannelConfig.PortID, path.EndpointA.ChannelID)
	e0 := s.app.BankKeeper.GetBalance(s.ctx, escrow, utils.BaseDenom).Amount.BigInt()
	if _, err := s.precompile.Transfer(s.ctx, origin, contract, s.stateDB, &method, args); err != nil {
		return "scenario: precompile call failed: " + err.Error()
	}
	if sc.Revert {
		s.stateDB.RevertToSnapshot(snap) // the frame fails after the precompile call returned (caught by its parent)
	}
	if err := s.stateDB.Commit(); err != nil {
		return "scenario: commit failed: " + err.Error()
	}
	if sc.Revert {
		// C05: a reverted frame leaves no trace
		if e1 := s.app.BankKeeper.GetBalance(s.ctx, escrow, utils.BaseDenom).Amount.BigInt(); e1.Cmp(e0) != 0 {
			return fmt.Sprintf("the IBC transfer made inside the reverted frame persists: escrow %s -> %s", e0, e1)
		}
		return ""
	}
	supply1 := s.app.BankKeeper.GetSupply(s.ctx, utils.BaseDenom).Amount.BigInt()
	if supply0.Cmp(supply1) != 0 {
		return fmt.Sprintf("total supply of the native coin moved by %s in one EVM transaction", new(big.Int).Sub(supply1, supply0))
	}
	want := new(big.Int).Sub(o0, big.NewInt(sc.Amount))
	if sc.ViaCaller {
		want.Sub(want, big.NewInt(sc.Value))
	}
	if bal(origin).Cmp(want) != 0 {
		return fmt.Sprintf("sender's bank balance is %s, expected %s (before %s)", bal(origin), want, o0)
	}
	return ""
}

func (s *PrecompileTestSuite) TestVerifReplayICS20Precompile() {
	raw, err := os.ReadFile(os.Getenv("VERIF_REPLAY_IN"))
	if err != nil {
		s.T().Skip("no replay request")
	}
	var req ipReq
	s.Require().NoError(json.Unmarshal(raw, &req))
	known := map[string]bool{}
	for _, k := range req.KnownIDs {
		known[k] = true
	}
	scenarios := []ipScenario{
		{"", "signer transfers directly", false, 0, 1000, false},
		{"", "signer transfers through a contract, no value sent", true, 0, 1000, false},
		{"F5-Transfer", "signer sends 1 to a contract that transfers the signer's coins under a grant", true, 1, 1000, false},
		{"F6-Transfer", "a contract transfers the signer's coins under a grant in a call frame that then reverts", true, 0, 1000, true},
	}
	out := ipOut{Verdict: "NOT-REPRODUCED", Bound: fmt.Sprintf("%d whole-transaction scenarios of ics20.transfer of the native coin (who calls x transaction value)", len(scenarios))}
	var firstKnown *ipOut
	unknown := false
	for _, sc := range scenarios {
		if req.Property != "" && !((req.Property == "C05" && sc.Revert) || (req.Property == "C02" && !sc.Revert)) {
			continue // frame-revert scenarios test C05, the others C02; no scenario speaks about another property
		}
		out.Cases++
		bad := s.ipRun(sc)
		if bad == "" {
			out.Results = append(out.Results, sc.Name+": holds")
			continue
		}
		out.Results = append(out.Results, sc.Name+": "+bad)
		if strings.HasPrefix(bad, "scenario:") {
			continue
		}
		hit := ipOut{Verdict: "REPRODUCED", Input: sc, Detail: bad}
		if sc.ID != "" && known[sc.ID] {
			hit.KnownID = sc.ID
			if firstKnown == nil {
				firstKnown = &hit
			}
			continue
		}
		out.Verdict, out.Input, out.Detail = hit.Verdict, hit.Input, hit.Detail
		unknown = true
		break
	}
	if !unknown && firstKnown != nil {
		out.Verdict, out.Input, out.Detail, out.KnownID = firstKnown.Verdict, firstKnown.Input, firstKnown.Detail, firstKnown.KnownID
	}
	js, _ := json.MarshalIndent(out, "", " ")
	s.Require().NoError(os.WriteFile(os.Getenv("VERIF_REPLAY_OUT"), js, 0o644))
}
