package bank_test

// Replay driver for finding K1 (C16, query side): an IBC voucher without a registered token pair is listed by balances() and
// totalSupply() under its hash-derived address, but supplyOf of that address reports 0.
// Run: copy to precompiles/bank/zz_replay_k1_test.go (or use -overlay) and
//   go test -count=1 -run 'TestPrecompileTestSuite/TestReplayK1' ./precompiles/bank/

import (
	"math/big"

	"cosmossdk.io/math"
	sdk "github.com/cosmos/cosmos-sdk/types"

	"github.com/haqq-network/haqq/precompiles/bank"
	coinomicstypes "github.com/haqq-network/haqq/x/coinomics/types"
)

func (s *PrecompileTestSuite) TestReplayK1() {
	s.SetupTest()
	ctx := s.network.GetContext()
	voucher := "ibc/27394FB092D2ECCD56123C74F36E4C1F926001CEADA9CA97EA622B25F41E5EB2"
	amt := math.NewInt(777)
	coins := sdk.Coins{{Denom: voucher, Amount: amt}}
	s.Require().NoError(s.network.App.BankKeeper.MintCoins(ctx, coinomicstypes.ModuleName, coins))
	s.Require().NoError(s.network.App.BankKeeper.SendCoinsFromModuleToAccount(ctx, coinomicstypes.ModuleName, s.keyring.GetAccAddr(0), coins))

	// balances(account): the voucher is listed under its hash-derived address with the bank balance
	mb := s.precompile.Methods[bank.BalancesMethod]
	bz, err := s.precompile.Balances(ctx, nil, &mb, []interface{}{s.keyring.GetAddr(0)})
	s.Require().NoError(err)
	var balances []bank.Balance
	s.Require().NoError(s.precompile.UnpackIntoInterface(&balances, mb.Name, bz))
	addr, err := s.network.App.Erc20Keeper.GetCoinAddress(ctx, voucher)
	s.Require().NoError(err)
	listed := false
	for _, b := range balances {
		if b.ContractAddress == addr {
			listed = true
			s.Require().Equal(amt.BigInt(), b.Amount)
		}
	}
	s.Require().True(listed, "voucher listed by balances()")

	// totalSupply(): listed as well, with the bank supply
	mt := s.precompile.Methods[bank.TotalSupplyMethod]
	bz, err = s.precompile.TotalSupply(ctx, nil, &mt, nil)
	s.Require().NoError(err)
	var supplies []bank.Balance
	s.Require().NoError(s.precompile.UnpackIntoInterface(&supplies, mt.Name, bz))
	listed = false
	for _, b := range supplies {
		if b.ContractAddress == addr {
			listed = true
			s.Require().Equal(amt.BigInt(), b.Amount)
		}
	}
	s.Require().True(listed, "voucher listed by totalSupply()")

	// supplyOf(that address): the bank supply is 777 ...
	s.Require().Equal(amt, s.network.App.BankKeeper.GetSupply(ctx, voucher).Amount)
	ms := s.precompile.Methods[bank.SupplyOfMethod]
	bz, err = s.precompile.SupplyOf(ctx, nil, &ms, []interface{}{addr})
	s.Require().NoError(err)
	out, err := s.precompile.Unpack(ms.Name, bz)
	s.Require().NoError(err)
	got := out[0].(*big.Int)
	s.T().Logf("K1: balances()/totalSupply() list %s under %s with amount %s; supplyOf(%s) = %s", voucher, addr.Hex(), amt, addr.Hex(), got)
	// ... but supplyOf reports 0 (finding K1). The property wants 777.
	s.Require().Equal(int64(0), got.Int64(), "K1 reproduced: supplyOf reports 0 for a listed denomination")
}
