package bank_test

// Replay driver for finding K1 (C16, query side): an IBC voucher without a registered token pair is listed by balances() and
// totalSupply() under its hash-derived address, but supplyOf of that address reports 0.
// Run: copy to precompiles/bank/zz_replay_k1_test.go (or use -overlay) and
//   go test -count=1 -run 'TestPrecompileTestSuite/TestReplayK1' ./precompiles/bank/

import (
	"encoding/json"
	"fmt"
	"math/big"
	"os"

	"cosmossdk.io/math"
	sdk "github.com/cosmos/cosmos-sdk/types"

	"github.com/haqq-network/haqq/precompiles/bank"
	coinomicstypes "github.com/haqq-network/haqq/x/coinomics/types"
)

func (s *PrecompileTestSuite) TestVerifReplayBankQuery() {
	raw, err0 := os.ReadFile(os.Getenv("VERIF_REPLAY_IN"))
	if err0 != nil {
		s.T().Skip("no replay request")
	}
	var req struct {
		KnownIDs []string `json:"known_ids"`
	}
	s.Require().NoError(json.Unmarshal(raw, &req))
	s.SetupTest()
	ctx := s.network.GetContext()
	voucher := "ibc/27394FB092D2ECCD56123C74F36E4C1F926001CEADA9CA97EA622B25F41E5EB2"
	amt := math.NewInt(777)
	coins := sdk.Coins{{Denom: voucher, Amount: amt}}
	s.Require().NoError(s.network.App.BankKeeper.MintCoins(ctx, coinomicstypes.ModuleName, coins))
	s.Require().NoError(s.network.App.BankKeeper.SendCoinsFromModuleToAccount(ctx, coinomicstypes.ModuleName, s.keyring.GetAccAddr(0), coins))

	// balances(account): the voucher is listed under its hash-derived address with the bank balance
	mb := s.precompile.Methods[bank.BalancesMethod]
	bz, err := s.precompile.Balances(ctx, nil, &mb, []interface{}{s.keyring.GetAddr(0)})
	s.Require().NoError(err)
	var balances []bank.Balance
	s.Require().NoError(s.precompile.UnpackIntoInterface(&balances, mb.Name, bz))
	addr, err := s.network.App.Erc20Keeper.GetCoinAddress(ctx, voucher)
	s.Require().NoError(err)
	listed := false
	for _, b := range balances {
		if b.ContractAddress == addr {
			listed = true
			s.Require().Equal(amt.BigInt(), b.Amount)
		}
	}
	s.Require().True(listed, "voucher listed by balances()")

	// totalSupply(): listed as well, with the bank supply
	mt := s.precompile.Methods[bank.TotalSupplyMethod]
	bz, err = s.precompile.TotalSupply(ctx, nil, &mt, nil)
	s.Require().NoError(err)
	var supplies []bank.Balance
	s.Require().NoError(s.precompile.UnpackIntoInterface(&supplies, mt.Name, bz))
	listed = false
	for _, b := range supplies {
		if b.ContractAddress == addr {
			listed = true
			s.Require().Equal(amt.BigInt(), b.Amount)
		}
	}
	s.Require().True(listed, "voucher listed by totalSupply()")

	// supplyOf(that address): the bank supply is 777 ...
	s.Require().Equal(amt, s.network.App.BankKeeper.GetSupply(ctx, voucher).Amount)
	ms := s.precompile.Methods[bank.SupplyOfMethod]
	bz, err = s.precompile.SupplyOf(ctx, nil, &ms, []interface{}{addr})
	s.Require().NoError(err)
	out, err := s.precompile.Unpack(ms.Name, bz)
	s.Require().NoError(err)
	got := out[0].(*big.Int)
	res := map[string]interface{}{"verdict": "NOT-REPRODUCED", "cases": 1,
		"bound": "one account holding 777 units of an IBC voucher that has no registered token pair: balances(), totalSupply() and supplyOf() of the bank precompile compared with the bank module"}
	if got.Cmp(amt.BigInt()) != 0 {
		res["verdict"] = "REPRODUCED"
		res["input"] = map[string]string{"id": "K1", "denom": voucher, "address": addr.Hex()}
		res["detail"] = fmt.Sprintf("balances() / totalSupply() list %s under %s with amount %s, but supplyOf(%s) = %s (bank supply %s)", voucher, addr.Hex(), amt, addr.Hex(), got, amt)
		for _, k := range req.KnownIDs {
			if k == "K1" {
				res["known_id"] = "K1"
			}
		}
	}
	js, _ := json.MarshalIndent(res, "", " ")
	s.Require().NoError(os.WriteFile(os.Getenv("VERIF_REPLAY_OUT"), js, 0o644))
}
