package types

// Replay driver for x/liquidvesting/types (C11). Injected with `go test -overlay`; never written to /repo.
// Calls the real schedule-splitting functions and compares with oracles taken from the property text.

import (
	"encoding/json"
	"fmt"
	"math/rand"
	"os"
	"strings"
	"testing"

	sdkmath "cosmossdk.io/math"
	sdk "github.com/cosmos/cosmos-sdk/types"
	sdkvesting "github.com/cosmos/cosmos-sdk/x/auth/vesting/types"
)

type lrPeriod struct {
	Length int64            `json:"length"`
	Amount map[string]int64 `json:"amount"`
}
type lrInput struct {
	Func    string     `json:"func"`
	Periods []lrPeriod `json:"periods"`
	Repl    []lrPeriod `json:"replacement,omitempty"`
	Denom   string     `json:"denom,omitempty"`
	Amount  int64      `json:"amount,omitempty"`
	Start   int64      `json:"start"`
	T       int64      `json:"t"`
}
type lrReq struct {
	Mode       string          `json:"mode"`
	Obligation string          `json:"obligation"`
	Input      json.RawMessage `json:"input"`
	Seed       int64           `json:"seed"`
	Budget     int             `json:"budget"`
}
type lrOut struct {
	Verdict string      `json:"verdict"`
	Input   interface{} `json:"input,omitempty"`
	Detail  interface{} `json:"detail,omitempty"`
	Cases   int         `json:"cases"`
	Bound   string      `json:"bound,omitempty"`
}

func lrCoins(m map[string]int64) sdk.Coins {
	cs := sdk.Coins{}
	for d, a := range m {
		if a > 0 {
			cs = cs.Add(sdk.NewCoin(d, sdkmath.NewInt(a)))
		}
	}
	return cs
}
func lrPeriods(ps []lrPeriod) sdkvesting.Periods {
	out := make(sdkvesting.Periods, len(ps))
	for i, p := range ps {
		out[i] = sdkvesting.Period{Length: p.Length, Amount: lrCoins(p.Amount)}
	}
	return out
}
func lrEq(a, b sdk.Coins) bool { return a.IsAllLTE(b) && b.IsAllLTE(a) }

func lrCatch(f func()) (msg string) {
	defer func() {
		if r := recover(); r != nil {
			msg = fmt.Sprint(r)
		}
	}()
	f()
	return ""
}

func lrPast(start int64, ps sdkvesting.Periods, t int64) int {
	if t <= start {
		return 0
	}
	n, at := 0, start
	for _, p := range ps {
		at += p.Length
		if at <= t {
			n++
		}
	}
	return n
}

func lrCheck(in lrInput) string {
	ps := lrPeriods(in.Periods)
	orig := lrPeriods(in.Periods)
	switch in.Func {
	case "SubtractAmountFromPeriods":
		coin := sdk.NewCoin(in.Denom, sdkmath.NewInt(in.Amount))
		tot := ps.TotalAmount().AmountOf(in.Denom)
		var dec, diff sdkvesting.Periods
		var err error
		if p := lrCatch(func() { dec, diff, err = SubtractAmountFromPeriods(ps, coin) }); p != "" {
			return "panic: " + p
		}
		wantErr := tot.LT(coin.Amount) || tot.IsZero()
		if (err != nil) != wantErr {
			return fmt.Sprintf("error = %v, but total %s vs requested %s", err, tot, coin.Amount)
		}
		if err != nil {
			return ""
		}
		if len(dec) != len(orig) || len(diff) != len(orig) {
			return "result lengths differ from the input"
		}
		moved := sdkmath.ZeroInt()
		for i := range orig {
			if dec[i].Length != orig[i].Length || diff[i].Length != orig[i].Length {
				return fmt.Sprintf("period %d: length changed", i)
			}
			if dec[i].Amount.IsAnyNegative() || diff[i].Amount.IsAnyNegative() {
				return fmt.Sprintf("period %d: negative part", i)
			}
			if !lrEq(dec[i].Amount.Add(diff[i].Amount...), orig[i].Amount) {
				return fmt.Sprintf("period %d: left %s + moved %s != original %s", i, dec[i].Amount, diff[i].Amount, orig[i].Amount)
			}
			for _, c := range diff[i].Amount {
				if c.Denom != in.Denom {
					return fmt.Sprintf("period %d: moved a different denomination %s", i, c.Denom)
				}
			}
			moved = moved.Add(diff[i].Amount.AmountOf(in.Denom))
		}
		if !moved.Equal(coin.Amount) {
			return fmt.Sprintf("moved total %s != requested %s", moved, coin.Amount)
		}
		for i := range orig {
			if !lrEq(ps[i].Amount, orig[i].Amount) || ps[i].Length != orig[i].Length {
				return "input periods were mutated"
			}
		}
	case "ExtractUpcomingPeriods", "ExtractPastPeriods":
		end := in.Start
		for _, p := range ps {
			end += p.Length
		}
		c := lrPast(in.Start, ps, in.T)
		var up, past sdkvesting.Periods
		if p := lrCatch(func() {
			up = ExtractUpcomingPeriods(in.Start, end, ps, in.T)
			past = ExtractPastPeriods(in.Start, end, ps, in.T)
		}); p != "" {
			return "panic: " + p
		}
		if len(past) != c || len(up) != len(ps)-c {
			return fmt.Sprintf("t=%d: %d past / %d upcoming, expected %d / %d", in.T, len(past), len(up), c, len(ps)-c)
		}
		for i := range past {
			if past[i].Length != orig[i].Length || !lrEq(past[i].Amount, orig[i].Amount) {
				return "past period differs from the original"
			}
		}
		for i := range up {
			if up[i].Length != orig[c+i].Length || !lrEq(up[i].Amount, orig[c+i].Amount) {
				return "upcoming period differs from the original"
			}
		}
	case "ReplacePeriodsTail":
		rp := lrPeriods(in.Repl)
		var out sdkvesting.Periods
		if p := lrCatch(func() { out = ReplacePeriodsTail(ps, rp) }); p != "" {
			return "panic: " + p
		}
		if len(rp) >= len(ps) {
			if len(out) != len(rp) {
				return "whole replacement: wrong length"
			}
			for i := range rp {
				if out[i].Length != rp[i].Length || !lrEq(out[i].Amount, rp[i].Amount) {
					return "whole replacement: element differs"
				}
			}
			return ""
		}
		if len(out) != len(ps) {
			return "tail replacement: wrong length"
		}
		k := len(ps) - len(rp)
		for i := range out {
			want := orig[i]
			if i >= k {
				want = rp[i-k]
			}
			if out[i].Length != want.Length || !lrEq(out[i].Amount, want.Amount) {
				return fmt.Sprintf("tail replacement: element %d differs", i)
			}
		}
	case "CurrentPeriodShift":
		var got int64
		if p := lrCatch(func() { got = CurrentPeriodShift(in.Start, in.T, ps) }); p != "" {
			return "panic: " + p
		}
		var want int64
		if in.Start < in.T {
			// time since the last event at or before T, if a period is still running
			at, last, running := in.Start, in.Start, false
			for _, p := range ps {
				at += p.Length
				if at <= in.T {
					last = at
				} else {
					running = true
					break
				}
			}
			if running {
				want = in.T - last
			}
		}
		if got != want {
			return fmt.Sprintf("CurrentPeriodShift(start=%d, t=%d) = %d, time since the last event = %d", in.Start, in.T, got, want)
		}
	}
	return ""
}

func lrGen(rng *rand.Rand, maxN int) []lrPeriod {
	n := rng.Intn(maxN + 1)
	out := make([]lrPeriod, n)
	for i := range out {
		m := map[string]int64{}
		if rng.Intn(5) != 0 {
			m["aaa"] = []int64{0, 1, 2, 3, 7, 10, 1000000}[rng.Intn(7)]
		}
		if rng.Intn(3) == 0 {
			m["bbb"] = int64(1 + rng.Intn(9))
		}
		out[i] = lrPeriod{[]int64{0, 1, 2, 5, 100}[rng.Intn(5)], m}
	}
	return out
}

func TestVerifReplayLiquidvestingTypes(t *testing.T) {
	raw, err := os.ReadFile(os.Getenv("VERIF_REPLAY_IN"))
	if err != nil {
		t.Skip("no replay request")
	}
	var req lrReq
	if err := json.Unmarshal(raw, &req); err != nil {
		t.Fatal(err)
	}
	out := lrOut{Verdict: "NOT-REPRODUCED"}
	write := func() {
		js, _ := json.MarshalIndent(out, "", " ")
		if err := os.WriteFile(os.Getenv("VERIF_REPLAY_OUT"), js, 0o644); err != nil {
			t.Fatal(err)
		}
	}
	if req.Mode == "input" {
		var in lrInput
		if err := json.Unmarshal(req.Input, &in); err != nil {
			t.Fatal(err)
		}
		if bad := lrCheck(in); bad != "" {
			out.Verdict, out.Input, out.Detail = "REPRODUCED", in, bad
		}
		write()
		return
	}
	funcs := []string{"SubtractAmountFromPeriods", "ExtractUpcomingPeriods", "ReplacePeriodsTail", "CurrentPeriodShift"}
	if req.Mode == "model" {
		var only []string
		for _, f := range append(funcs, "ExtractPastPeriods") {
			if strings.Contains(req.Obligation, "."+f+"#") {
				only = []string{f}
			}
		}
		if only != nil {
			funcs = only
		}
	}
	out.Bound = "period lists of up to 4 periods, lengths in {0,1,2,5,100}, amounts in {0,1,2,3,7,10,1e6} of one denomination plus an optional second one, requested amounts from 0 to total+1, every instant around every event; seeded random"
	budget := req.Budget
	if budget <= 0 {
		budget = 20000
	}
	rng := rand.New(rand.NewSource(req.Seed))
	for _, fn := range funcs {
		for n := 0; n < budget; n++ {
			in := lrInput{Func: fn, Periods: lrGen(rng, 4), Start: []int64{0, 3, 10}[rng.Intn(3)], Denom: "aaa"}
			switch fn {
			case "SubtractAmountFromPeriods":
				tot := int64(0)
				for _, p := range in.Periods {
					tot += p.Amount["aaa"]
				}
				in.Amount = []int64{0, 1, tot / 2, tot / 3, tot - 1, tot, tot + 1}[rng.Intn(7)]
				if in.Amount < 0 {
					in.Amount = 0
				}
			case "ReplacePeriodsTail":
				in.Repl = lrGen(rng, 5)
			default:
				at := in.Start
				cands := []int64{in.Start - 1, in.Start, in.Start + 1}
				for _, p := range in.Periods {
					at += p.Length
					cands = append(cands, at-1, at, at+1)
				}
				in.T = cands[rng.Intn(len(cands))]
			}
			out.Cases++
			if bad := lrCheck(in); bad != "" {
				out.Verdict, out.Input, out.Detail = "REPRODUCED", in, bad
				write()
				return
			}
		}
	}
	write()
}
