package erc20_test

// Replay driver for finding E1 (C04, agent U): a REFUSED transferFrom by a spender != owner still consumes the owner's allowance.
// authz Keeper.DispatchActions accepts the SendAuthorization, rewrites / deletes the grant (reduced by the amount) and only then runs
// the bank handler - without a cache context, and the precompile adds none. When the bank send is refused (owner balance too low) the
// method returns the error with the allowance already reduced.
// Run: copy to precompiles/erc20/zz_verif_replay_test.go (or use -overlay) and
//   go test -count=1 -run 'TestPrecompileTestSuite/TestVerifReplayErc20TransferFrom' ./precompiles/erc20/

import (
	"encoding/json"
	"fmt"
	"math/big"
	"os"
	"time"

	"cosmossdk.io/math"
	sdk "github.com/cosmos/cosmos-sdk/types"
	banktypes "github.com/cosmos/cosmos-sdk/x/bank/types"

	"github.com/haqq-network/haqq/precompiles/erc20"
	"github.com/haqq-network/haqq/precompiles/testutil"
	erc20types "github.com/haqq-network/haqq/x/erc20/types"
)

func (s *PrecompileTestSuite) TestVerifReplayErc20TransferFrom() {
	raw, err0 := os.ReadFile(os.Getenv("VERIF_REPLAY_IN"))
	if err0 != nil {
		s.T().Skip("no replay request")
	}
	var req struct {
		KnownIDs []string `json:"known_ids"`
	}
	s.Require().NoError(json.Unmarshal(raw, &req))
	method := s.precompile.Methods[erc20.TransferFromMethod]
	owner := s.keyring.GetKey(0)
	spender := s.keyring.GetKey(1)
	s.SetupTest()
	stateDB := s.network.GetStateDB()
	contract, ctx := testutil.NewPrecompileContract(s.T(), s.network.GetContext(), spender.Addr, s.precompile, 0)
	// the owner holds 1e18 of the token, the spender may spend 5e18 of it
	s.Require().NoError(s.network.App.BankKeeper.MintCoins(s.network.GetContext(), erc20types.ModuleName, XMPLCoin))
	s.Require().NoError(s.network.App.BankKeeper.SendCoinsFromModuleToAccount(s.network.GetContext(), erc20types.ModuleName, owner.AccAddr, XMPLCoin))
	expiration := time.Now().Add(time.Hour)
	s.Require().NoError(s.network.App.AuthzKeeper.SaveGrant(s.network.GetContext(), spender.AccAddr, owner.AccAddr,
		&banktypes.SendAuthorization{SpendLimit: sdk.Coins{sdk.Coin{Denom: s.tokenDenom, Amount: math.NewInt(5e18)}}}, &expiration))
	allowance := func() string {
		a, _ := s.network.App.AuthzKeeper.GetAuthorization(ctx, spender.AccAddr, owner.AccAddr, erc20.SendMsgURL)
		if a == nil {
			return "<no grant>"
		}
		return a.(*banktypes.SendAuthorization).SpendLimit.String()
	}
	before := allowance()
	balBefore := s.network.App.BankKeeper.GetBalance(ctx, owner.AccAddr, s.tokenDenom)
	// transferFrom(owner, to, 2e18): within the allowance, beyond the owner's balance -> refused
	_, err := s.precompile.TransferFrom(ctx, contract, stateDB, &method, []interface{}{owner.Addr, toAddr, big.NewInt(2e18)})
	after := allowance()
	balAfter := s.network.App.BankKeeper.GetBalance(ctx, owner.AccAddr, s.tokenDenom)
	res := map[string]interface{}{"verdict": "NOT-REPRODUCED", "cases": 1,
		"bound": "one transferFrom(owner, to, 2e18) by a spender with a 5e18 SendAuthorization grant while the owner holds 1e18, on the real precompile and keepers",
		"detail": fmt.Sprintf("err=%v; allowance %s -> %s; owner balance %s -> %s", err, before, after, balBefore, balAfter)}
	if err != nil && before != after {
		res["verdict"] = "REPRODUCED"
		res["input"] = map[string]string{"id": "E1-transferFrom", "grant": "5e18", "owner_balance": balBefore.String(), "amount": "2e18"}
		for _, k := range req.KnownIDs {
			if k == "E1-transferFrom" {
				res["known_id"] = k
			}
		}
	}
	js, _ := json.MarshalIndent(res, "", " ")
	s.Require().NoError(os.WriteFile(os.Getenv("VERIF_REPLAY_OUT"), js, 0o644))
}
