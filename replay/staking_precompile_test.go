package staking_test

// Replay driver for precompiles/staking (C02). Injected with `go test -overlay`; never written to /repo.
// Runs whole-transaction scenarios against the real precompile, StateDB and keepers and checks the property itself:
// an Ethereum transaction leaves the total supply of the native coin unchanged and every account's bank balance moves by
// exactly what it paid and received.
//
// A scenario emulates the frames of one transaction the way go-ethereum's EVM drives the StateDB: the top-level call reads
// the signer's balance (CanTransfer) and moves the transaction value to the called contract (Transfer), the contract calls
// the precompile (precompile.Run with that contract as caller), the keeper commits the StateDB.

import (
	"encoding/json"
	"fmt"
	"math/big"
	"os"
	"strings"

	"github.com/ethereum/go-ethereum/common"
	ethtypes "github.com/ethereum/go-ethereum/core/types"
	"github.com/ethereum/go-ethereum/core/vm"

	"github.com/haqq-network/haqq/app"
	"github.com/haqq-network/haqq/precompiles/staking"
	haqqtestutil "github.com/haqq-network/haqq/testutil"
	utiltx "github.com/haqq-network/haqq/testutil/tx"
	"github.com/haqq-network/haqq/utils"
	evmtypes "github.com/haqq-network/haqq/x/evm/types"
)

type spReq struct {
	Mode     string   `json:"mode"`
	KnownIDs []string `json:"known_ids"`
	Property string   `json:"property"` // run only the scenarios that test this property ("" = all)
}
type spOut struct {
	Verdict string      `json:"verdict"`
	Input   interface{} `json:"input,omitempty"`
	Detail  interface{} `json:"detail,omitempty"`
	Cases   int         `json:"cases"`
	Bound   string      `json:"bound,omitempty"`
	KnownID string      `json:"known_id,omitempty"`
	Results []string    `json:"results,omitempty"` // one line per scenario
}

type spScenario struct {
	ID        string `json:"id"` // id of the known finding this scenario is the witness of ("" = must hold)
	Name      string `json:"name"`
	ViaCaller bool   `json:"via_contract"` // the precompile is called by a contract, not by the signer
	Delegator string `json:"delegator"`    // "origin" or "caller"
	Value     int64  `json:"tx_value"`     // value sent with the transaction to the calling contract
	Amount    int64  `json:"amount"`
	Revert    bool   `json:"frame_reverts"` // the call frame that made the precompile call reverts afterwards (C05)
}

func (s *PrecompileTestSuite) spRun(sc spScenario) string {
	s.SetupTest()
	origin := s.address
	caller := origin
	if sc.ViaCaller {
		caller = utiltx.GenerateAddress()
		s.Require().NoError(s.CreateAuthorization(caller, staking.DelegateAuthz, nil))
	}
	delegator := origin
	if sc.Delegator == "caller" {
		delegator = caller
		s.Require().NoError(haqqtestutil.FundAccountWithBaseDenom(s.ctx, s.app.BankKeeper, caller.Bytes(), 1000000))
	}
	baseFee := s.app.FeeMarketKeeper.GetBaseFee(s.ctx)
	contract := vm.NewPrecompile(vm.AccountRef(caller), s.precompile, big.NewInt(0), 1000000)
	contractAddr := contract.Address()
	input, err := s.precompile.Pack(staking.DelegateMethod, delegator, s.validators[0].GetOperator().String(), big.NewInt(sc.Amount))
	s.Require().NoError(err)
	contract.Input = input
	txArgs := evmtypes.EvmTxArgs{ChainID: s.app.EvmKeeper.ChainID(), Nonce: 0, To: &contractAddr, GasLimit: 1000000,
		GasPrice: app.MinGasPrices.BigInt(), GasFeeCap: baseFee, GasTipCap: big.NewInt(1), Accesses: &ethtypes.AccessList{}}
	msgEthereumTx := evmtypes.NewTx(&txArgs)
	msgEthereumTx.From = origin.String()
	s.Require().NoError(msgEthereumTx.Sign(s.ethSigner, s.signer))
	cfg, err := s.app.EvmKeeper.EVMConfig(s.ctx, s.ctx.BlockHeader().ProposerAddress, s.app.EvmKeeper.ChainID())
	s.Require().NoError(err)
	msg, err := msgEthereumTx.AsMessage(s.ethSigner, baseFee)
	s.Require().NoError(err)
	evm := s.app.EvmKeeper.NewEVM(s.ctx, msg, cfg, nil, s.stateDB)
	params := s.app.EvmKeeper.GetParams(s.ctx)
	active := params.GetActivePrecompilesAddrs()
	pm := s.app.EvmKeeper.Precompiles(active...)
	s.Require().NoError(vm.ValidatePrecompiles(pm, active))
	evm.WithPrecompiles(pm, active)

	bal := func(a common.Address) *big.Int {
		return s.app.BankKeeper.GetBalance(s.ctx, a.Bytes(), utils.BaseDenom).Amount.BigInt()
	}
	supply0 := s.app.BankKeeper.GetSupply(s.ctx, utils.BaseDenom).Amount.BigInt()
	o0, c0 := bal(origin), bal(caller)
	shares0 := s.spShares(delegator)
	// top-level frame, as evm.Call does it
	if s.stateDB.GetBalance(origin).Cmp(big.NewInt(sc.Value)) < 0 {
		return "scenario: insufficient balance"
	}
	if sc.ViaCaller {
		s.stateDB.SubBalance(origin, big.NewInt(sc.Value))
		s.stateDB.AddBalance(caller, big.NewInt(sc.Value))
	}
	snap := s.stateDB.Snapshot() // evm.Call snapshots on entering the frame that makes the precompile call
	if _, err := s.precompile.Run(evm, contract, false); err != nil {
		return "scenario: precompile call failed: " + err.Error()
	}
	if sc.Revert {
		s.stateDB.RevertToSnapshot(snap) // the frame fails after the precompile call returned (caught by its parent)
	}
	if err := s.stateDB.Commit(); err != nil {
		return "scenario: commit failed: " + err.Error()
	}
	if sc.Revert {
		// C05: a reverted frame leaves no trace, precompiles included
		if got := s.spShares(delegator); got != shares0 {
			return fmt.Sprintf("the delegation made inside the reverted frame persists: shares %s -> %s", shares0, got)
		}
		if bal(delegator).Cmp(map[bool]*big.Int{true: o0, false: c0}[delegator == origin]) != 0 {
			return "the delegator's bank balance changed although the frame was reverted"
		}
		return ""
	}
	supply1 := s.app.BankKeeper.GetSupply(s.ctx, utils.BaseDenom).Amount.BigInt()
	if supply0.Cmp(supply1) != 0 {
		return fmt.Sprintf("total supply of the native coin moved by %s in one EVM transaction", new(big.Int).Sub(supply1, supply0))
	}
	wantO, wantC := new(big.Int).Set(o0), new(big.Int).Set(c0)
	if sc.ViaCaller {
		wantO.Sub(wantO, big.NewInt(sc.Value))
		wantC.Add(wantC, big.NewInt(sc.Value))
	}
	if delegator == origin {
		wantO.Sub(wantO, big.NewInt(sc.Amount))
	} else {
		wantC.Sub(wantC, big.NewInt(sc.Amount))
	}
	if !sc.ViaCaller {
		wantC = wantO
	}
	if bal(origin).Cmp(wantO) != 0 {
		return fmt.Sprintf("signer's bank balance is %s, expected %s (before %s)", bal(origin), wantO, o0)
	}
	if bal(caller).Cmp(wantC) != 0 {
		return fmt.Sprintf("calling contract's bank balance is %s, expected %s (before %s)", bal(caller), wantC, c0)
	}
	return ""
}

// spRunHelperRevert: the signer's contract A (here: the signer itself, already dirty because the transaction carried value) calls
// a helper H with value 5 and catches its failure; H calls a read-only method of the precompile (whose Run flushes the StateDB into
// the store) and then reverts. C05 / C02: the reverted frame must leave no trace and the supply must not move.
func (s *PrecompileTestSuite) spRunHelperRevert() string {
	s.SetupTest()
	origin := s.address
	helper := utiltx.GenerateAddress()
	other := utiltx.GenerateAddress()
	baseFee := s.app.FeeMarketKeeper.GetBaseFee(s.ctx)
	contract := vm.NewPrecompile(vm.AccountRef(helper), s.precompile, big.NewInt(0), 1000000)
	contractAddr := contract.Address()
	input, err := s.precompile.Pack(staking.DelegationMethod, origin, s.validators[0].GetOperator().String())
	s.Require().NoError(err)
	contract.Input = input
	txArgs := evmtypes.EvmTxArgs{ChainID: s.app.EvmKeeper.ChainID(), Nonce: 0, To: &contractAddr, GasLimit: 1000000,
		GasPrice: app.MinGasPrices.BigInt(), GasFeeCap: baseFee, GasTipCap: big.NewInt(1), Accesses: &ethtypes.AccessList{}}
	msgEthereumTx := evmtypes.NewTx(&txArgs)
	msgEthereumTx.From = origin.String()
	s.Require().NoError(msgEthereumTx.Sign(s.ethSigner, s.signer))
	cfg, err := s.app.EvmKeeper.EVMConfig(s.ctx, s.ctx.BlockHeader().ProposerAddress, s.app.EvmKeeper.ChainID())
	s.Require().NoError(err)
	msg, err := msgEthereumTx.AsMessage(s.ethSigner, baseFee)
	s.Require().NoError(err)
	evm := s.app.EvmKeeper.NewEVM(s.ctx, msg, cfg, nil, s.stateDB)
	params := s.app.EvmKeeper.GetParams(s.ctx)
	active := params.GetActivePrecompilesAddrs()
	pm := s.app.EvmKeeper.Precompiles(active...)
	s.Require().NoError(vm.ValidatePrecompiles(pm, active))
	evm.WithPrecompiles(pm, active)
	bal := func(a common.Address) *big.Int {
		return s.app.BankKeeper.GetBalance(s.ctx, a.Bytes(), utils.BaseDenom).Amount.BigInt()
	}
	supply0 := s.app.BankKeeper.GetSupply(s.ctx, utils.BaseDenom).Amount.BigInt()
	o0, h0 := bal(origin), bal(helper)
	// outer frame: the transaction carries value 1 to some account (the signer is journal-dirty from here on)
	s.stateDB.SubBalance(origin, big.NewInt(1))
	s.stateDB.AddBalance(other, big.NewInt(1))
	// inner frame: call to the helper with value 5
	snap := s.stateDB.Snapshot()
	s.stateDB.SubBalance(origin, big.NewInt(5))
	s.stateDB.AddBalance(helper, big.NewInt(5))
	if _, err := s.precompile.Run(evm, contract, true); err != nil {
		return "scenario: precompile query failed: " + err.Error()
	}
	s.stateDB.RevertToSnapshot(snap) // the helper reverts; its caller catches the failure
	if err := s.stateDB.Commit(); err != nil {
		return "scenario: commit failed: " + err.Error()
	}
	supply1 := s.app.BankKeeper.GetSupply(s.ctx, utils.BaseDenom).Amount.BigInt()
	if bal(helper).Cmp(h0) != 0 {
		return fmt.Sprintf("the value transfer made inside the reverted frame persists: helper %s -> %s, signer %s -> %s, total supply moved by %s",
			h0, bal(helper), o0, bal(origin), new(big.Int).Sub(supply1, supply0))
	}
	if supply0.Cmp(supply1) != 0 {
		return fmt.Sprintf("total supply of the native coin moved by %s in one EVM transaction", new(big.Int).Sub(supply1, supply0))
	}
	return ""
}

func (s *PrecompileTestSuite) spShares(del common.Address) string {
	d, found := s.app.StakingKeeper.GetDelegation(s.ctx, del.Bytes(), s.validators[0].GetOperator())
	if !found {
		return "none"
	}
	return d.Shares.String()
}

func (s *PrecompileTestSuite) TestVerifReplayStakingPrecompile() {
	raw, err := os.ReadFile(os.Getenv("VERIF_REPLAY_IN"))
	if err != nil {
		s.T().Skip("no replay request")
	}
	var req spReq
	s.Require().NoError(json.Unmarshal(raw, &req))
	known := map[string]bool{}
	for _, k := range req.KnownIDs {
		known[k] = true
	}
	scenarios := []spScenario{
		{"", "signer delegates directly", false, "origin", 0, 1000, false},
		{"", "signer delegates through a contract, no value sent", true, "origin", 0, 1000, false},
		{"F5-Delegate", "signer sends 1 to a contract that delegates the signer's coins under a grant", true, "origin", 1, 1000, false},
		{"F5-Delegate", "as above, larger amounts", true, "origin", 12345, 777777, false},
		{"", "a contract delegates its own coins, no value sent", true, "caller", 0, 1000, false},
		{"", "a contract delegates its own coins, value sent", true, "caller", 5, 1000, false},
		{"F6-Delegate", "a contract delegates its own coins in a call frame that then reverts", true, "caller", 0, 1000, true},
		{"F6-Delegate", "a contract delegates the signer's coins under a grant in a call frame that then reverts", true, "origin", 0, 1000, true},
	}
	out := spOut{Verdict: "NOT-REPRODUCED", Bound: fmt.Sprintf("%d whole-transaction scenarios of staking.delegate (who calls x whose coins x transaction value)", len(scenarios))}
	var firstKnown *spOut
	for _, sc := range scenarios {
		if req.Property != "" && !((req.Property == "C05" && sc.Revert) || (req.Property == "C02" && !sc.Revert)) {
			continue // frame-revert scenarios test C05, the others C02; no scenario speaks about another property
		}
		out.Cases++
		bad := s.spRun(sc)
		if bad == "" {
			out.Results = append(out.Results, sc.Name+": holds")
			continue
		}
		out.Results = append(out.Results, sc.Name+": "+bad)
		if strings.HasPrefix(bad, "scenario:") {
			continue // the scenario could not be set up or the call was refused: nothing to judge
		}
		hit := spOut{Verdict: "REPRODUCED", Input: sc, Detail: bad}
		if sc.ID != "" && known[sc.ID] {
			hit.KnownID = sc.ID
			if firstKnown == nil {
				firstKnown = &hit
			}
			continue
		}
		out.Verdict, out.Input, out.Detail = hit.Verdict, hit.Input, hit.Detail
		firstKnown = nil
		break
	}
	// the flush-then-revert history (tests C05; its effect on the supply makes it a C02 history too)
	if (req.Property == "" || req.Property == "C02" || req.Property == "C05") && (out.Verdict != "REPRODUCED" || out.KnownID != "") {
		const name = "a helper called with value 5 queries the precompile and reverts; its caller catches the failure"
		out.Cases++
		bad := s.spRunHelperRevert()
		if bad == "" || strings.HasPrefix(bad, "scenario:") {
			out.Results = append(out.Results, name+": "+map[bool]string{true: "holds", false: bad}[bad == ""])
		} else {
			out.Results = append(out.Results, name+": "+bad)
			id := "F13-flush-revert"
			hit := spOut{Verdict: "REPRODUCED", Input: map[string]string{"id": id, "name": name}, Detail: bad}
			if known[id] || known[id+"@"+req.Property] {
				hit.KnownID = id
				if firstKnown == nil {
					firstKnown = &hit
				}
			} else {
				out.Verdict, out.Input, out.Detail, out.KnownID = hit.Verdict, hit.Input, hit.Detail, ""
				firstKnown = nil
			}
		}
	}
	if firstKnown != nil {
		out.Verdict, out.Input, out.Detail, out.KnownID = firstKnown.Verdict, firstKnown.Input, firstKnown.Detail, firstKnown.KnownID
	}
	js, _ := json.MarshalIndent(out, "", " ")
	s.Require().NoError(os.WriteFile(os.Getenv("VERIF_REPLAY_OUT"), js, 0o644))
}
