package eip712_test

// Replay driver for ethereum/eip712 (C03). Injected with `go test -overlay`; never written to /repo.
// Scenario sweep on the real decoders and the real key type: an EIP-712 signature made for one SIGN_MODE_DIRECT sign document must
// not verify for a document that differs in any execution-relevant field (gas, fee granter, fee payer, memo, sequence).

import (
	"bytes"
	"encoding/json"
	"fmt"
	"os"
	"testing"

	"cosmossdk.io/math"
	codectypes "github.com/cosmos/cosmos-sdk/codec/types"
	sdk "github.com/cosmos/cosmos-sdk/types"
	txtypes "github.com/cosmos/cosmos-sdk/types/tx"
	"github.com/cosmos/cosmos-sdk/types/tx/signing"
	banktypes "github.com/cosmos/cosmos-sdk/x/bank/types"
	"github.com/ethereum/go-ethereum/crypto"
	"github.com/stretchr/testify/require"

	"github.com/haqq-network/haqq/app"
	"github.com/haqq-network/haqq/cmd/config"
	"github.com/haqq-network/haqq/crypto/ethsecp256k1"
	"github.com/haqq-network/haqq/encoding"
	"github.com/haqq-network/haqq/ethereum/eip712"
)

func mkSignDoc(t *testing.T, from, to sdk.AccAddress, pk *ethsecp256k1.PubKey, fee *txtypes.Fee, msgs []*codectypes.Any, tip *txtypes.Tip) []byte {
	body := &txtypes.TxBody{Messages: msgs, Memo: "m"}
	bodyBz, err := body.Marshal()
	require.NoError(t, err)
	pkAny, err := codectypes.NewAnyWithValue(pk)
	require.NoError(t, err)
	ai := &txtypes.AuthInfo{
		SignerInfos: []*txtypes.SignerInfo{{PublicKey: pkAny, ModeInfo: &txtypes.ModeInfo{Sum: &txtypes.ModeInfo_Single_{Single: &txtypes.ModeInfo_Single{Mode: signing.SignMode_SIGN_MODE_DIRECT}}}, Sequence: 7}},
		Fee:         fee,
		Tip:         tip,
	}
	aiBz, err := ai.Marshal()
	require.NoError(t, err)
	sd := &txtypes.SignDoc{BodyBytes: bodyBz, AuthInfoBytes: aiBz, ChainId: "haqq_11235-1", AccountNumber: 3}
	bz, err := sd.Marshal()
	require.NoError(t, err)
	return bz
}

func TestVerifReplayEIP712(t *testing.T) {
	if _, err := os.ReadFile(os.Getenv("VERIF_REPLAY_IN")); err != nil {
		t.Skip("no replay request")
	}
	cfg := encoding.MakeConfig(app.ModuleBasics)
	sdk.GetConfig().SetBech32PrefixForAccount(config.Bech32Prefix, "")
	eip712.SetEncodingConfig(cfg)
	priv, err := ethsecp256k1.GenerateKey()
	require.NoError(t, err)
	pub := &ethsecp256k1.PubKey{Key: priv.PubKey().Bytes()}
	from := sdk.AccAddress(pub.Address().Bytes())
	to := sdk.AccAddress(bytes.Repeat([]byte{9}, 20))
	granter := sdk.AccAddress(bytes.Repeat([]byte{7}, 20))
	msg := banktypes.NewMsgSend(from, to, sdk.NewCoins(sdk.NewCoin("aISLM", math.NewInt(5))))
	msgAny, err := codectypes.NewAnyWithValue(msg)
	require.NoError(t, err)
	amt := sdk.NewCoins(sdk.NewCoin("aISLM", math.NewInt(2000)))
	docA := mkSignDoc(t, from, to, pub, &txtypes.Fee{Amount: amt, GasLimit: 20000}, []*codectypes.Any{msgAny}, nil)
	variants := map[string][]byte{
		"fee granter added":  mkSignDoc(t, from, to, pub, &txtypes.Fee{Amount: amt, GasLimit: 20000, Granter: granter.String()}, []*codectypes.Any{msgAny}, nil),
		"fee payer added":    mkSignDoc(t, from, to, pub, &txtypes.Fee{Amount: amt, GasLimit: 20000, Payer: from.String()}, []*codectypes.Any{msgAny}, nil),
		"gas limit changed":  mkSignDoc(t, from, to, pub, &txtypes.Fee{Amount: amt, GasLimit: 20001}, []*codectypes.Any{msgAny}, nil),
		"fee amount changed": mkSignDoc(t, from, to, pub, &txtypes.Fee{Amount: amt.Add(amt...), GasLimit: 20000}, []*codectypes.Any{msgAny}, nil),
	}
	rawA, err := eip712.GetEIP712BytesForMsg(docA)
	require.NoError(t, err)
	sig, err := priv.Sign(crypto.Keccak256(rawA))
	require.NoError(t, err)
	out := map[string]interface{}{"verdict": "NOT-REPRODUCED", "cases": len(variants) + 1,
		"bound": "one signed SIGN_MODE_DIRECT MsgSend document and 4 single-field variants of it"}
	if !pub.VerifySignature(docA, sig) {
		out["verdict"], out["detail"] = "REPRODUCED", "the signature does not verify for the document it was made for"
	}
	for name, doc := range variants {
		if pub.VerifySignature(doc, sig) {
			out["verdict"], out["input"], out["detail"] = "REPRODUCED", name, "an EIP-712 signature made for a sign document still verifies after a third party changed it: "+name
		}
	}
	js, _ := json.MarshalIndent(out, "", " ")
	require.NoError(t, os.WriteFile(os.Getenv("VERIF_REPLAY_OUT"), js, 0o644))
	_ = fmt.Sprint()
}
