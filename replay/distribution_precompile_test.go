package distribution_test

// Replay driver for precompiles/distribution (C02). Injected with `go test -overlay`; never written to /repo.
// Whole-transaction scenarios against the real precompile, StateDB and keepers; the oracle is the property itself: the total
// supply of the native coin is unchanged by the transaction and the credited account's bank balance grows by exactly what the
// distribution module paid (learned from the native message on a fork of the same state).

import (
	"encoding/json"
	"fmt"
	"math/big"
	"os"
	"strings"

	"cosmossdk.io/math"
	sdk "github.com/cosmos/cosmos-sdk/types"
	distrkeeper "github.com/cosmos/cosmos-sdk/x/distribution/keeper"
	distrtypes "github.com/cosmos/cosmos-sdk/x/distribution/types"
	"github.com/ethereum/go-ethereum/common"
	ethtypes "github.com/ethereum/go-ethereum/core/types"
	"github.com/ethereum/go-ethereum/core/vm"

	"github.com/haqq-network/haqq/app"
	"github.com/haqq-network/haqq/precompiles/distribution"
	ptestutil "github.com/haqq-network/haqq/precompiles/testutil"
	haqqtestutil "github.com/haqq-network/haqq/testutil"
	utiltx "github.com/haqq-network/haqq/testutil/tx"
	"github.com/haqq-network/haqq/utils"
	evmtypes "github.com/haqq-network/haqq/x/evm/types"
)

type dpReq struct {
	Mode     string   `json:"mode"`
	KnownIDs []string `json:"known_ids"`
	Property string   `json:"property"` // run only the scenarios that test this property ("" = all)
}
type dpOut struct {
	Verdict string      `json:"verdict"`
	Input   interface{} `json:"input,omitempty"`
	Detail  interface{} `json:"detail,omitempty"`
	Cases   int         `json:"cases"`
	Bound   string      `json:"bound,omitempty"`
	KnownID string      `json:"known_id,omitempty"`
	Results []string    `json:"results,omitempty"` // one line per scenario
}

type dpScenario struct {
	ID          string `json:"id"` // id of the known finding this scenario is the witness of ("" = must hold)
	Name        string `json:"name"`
	Method      string `json:"method"`        // "rewards" | "commission"
	ViaCaller   bool   `json:"via_contract"`  // the precompile is called by a contract, not by the signer
	Value       int64  `json:"tx_value"`      // value sent with the transaction to the called address
	OtherPayout bool   `json:"withdraw_addr"` // the withdraw address is a third account
	Revert      bool   `json:"frame_reverts"` // the call frame that made the precompile call reverts afterwards (C05)
}

func (s *PrecompileTestSuite) dpRun(sc dpScenario) string {
	s.SetupTest()
	origin := s.address
	caller := origin
	if sc.ViaCaller {
		caller = utiltx.GenerateAddress()
	}
	payout := origin
	if sc.OtherPayout {
		payout = utiltx.GenerateAddress()
		s.Require().NoError(s.app.DistrKeeper.SetWithdrawAddr(s.ctx, origin.Bytes(), payout.Bytes()))
	}
	var input []byte
	var err error
	var native func(ctx sdk.Context) (sdk.Coins, error)
	switch sc.Method {
	case "rewards":
		valAddr, err := sdk.ValAddressFromBech32(s.validators[0].OperatorAddress)
		s.Require().NoError(err)
		val, _ := s.app.StakingKeeper.GetValidator(s.ctx, valAddr)
		coins := sdk.NewCoins(sdk.NewCoin(utils.BaseDenom, math.NewInt(1e18)))
		s.Require().NoError(haqqtestutil.FundModuleAccount(s.ctx, s.app.BankKeeper, distrtypes.ModuleName, coins))
		s.app.DistrKeeper.AllocateTokensToValidator(s.ctx, val, sdk.NewDecCoinsFromCoins(coins...))
		input, err = s.precompile.Pack(distribution.WithdrawDelegatorRewardsMethod, origin, s.validators[0].OperatorAddress)
		s.Require().NoError(err)
		native = func(ctx sdk.Context) (sdk.Coins, error) {
			res, err := distrkeeper.NewMsgServerImpl(s.app.DistrKeeper).WithdrawDelegatorReward(sdk.WrapSDKContext(ctx),
				distrtypes.NewMsgWithdrawDelegatorReward(origin.Bytes(), valAddr))
			if err != nil {
				return nil, err
			}
			return res.Amount, nil
		}
	case "commission":
		ptestutil.CreateValidator(s.ctx, s.T(), s.privKey.PubKey(), *s.app.StakingKeeper.Keeper, math.NewInt(100))
		valAddr := sdk.ValAddress(origin.Bytes())
		commission := sdk.DecCoins{sdk.NewDecCoinFromDec(utils.BaseDenom, math.LegacyNewDec(1000))}
		s.app.DistrKeeper.SetValidatorAccumulatedCommission(s.ctx, valAddr, distrtypes.ValidatorAccumulatedCommission{Commission: commission})
		s.app.DistrKeeper.SetValidatorOutstandingRewards(s.ctx, valAddr, distrtypes.ValidatorOutstandingRewards{Rewards: commission})
		s.Require().NoError(haqqtestutil.FundModuleAccount(s.ctx, s.app.BankKeeper, distrtypes.ModuleName, sdk.NewCoins(sdk.NewCoin(utils.BaseDenom, math.NewInt(1000)))))
		input, err = s.precompile.Pack(distribution.WithdrawValidatorCommissionMethod, valAddr.String())
		s.Require().NoError(err)
		native = func(ctx sdk.Context) (sdk.Coins, error) {
			res, err := distrkeeper.NewMsgServerImpl(s.app.DistrKeeper).WithdrawValidatorCommission(sdk.WrapSDKContext(ctx),
				distrtypes.NewMsgWithdrawValidatorCommission(valAddr))
			if err != nil {
				return nil, err
			}
			return res.Amount, nil
		}
	}
	// what the native message pays, on a fork of the same state
	fork, _ := s.ctx.CacheContext()
	paidCoins, err := native(fork)
	if err != nil {
		return "scenario: native message failed: " + err.Error()
	}
	paid := paidCoins.AmountOf(utils.BaseDenom).BigInt()

	baseFee := s.app.FeeMarketKeeper.GetBaseFee(s.ctx)
	contract := vm.NewPrecompile(vm.AccountRef(caller), s.precompile, big.NewInt(0), 1000000)
	contractAddr := contract.Address()
	contract.Input = input
	txArgs := evmtypes.EvmTxArgs{ChainID: s.app.EvmKeeper.ChainID(), Nonce: 0, To: &contractAddr, GasLimit: 1000000,
		GasPrice: app.MinGasPrices.BigInt(), GasFeeCap: baseFee, GasTipCap: big.NewInt(1), Accesses: &ethtypes.AccessList{}}
	msgEthereumTx := evmtypes.NewTx(&txArgs)
	msgEthereumTx.From = origin.String()
	s.Require().NoError(msgEthereumTx.Sign(s.ethSigner, s.signer))
	cfg, err := s.app.EvmKeeper.EVMConfig(s.ctx, s.ctx.BlockHeader().ProposerAddress, s.app.EvmKeeper.ChainID())
	s.Require().NoError(err)
	msg, err := msgEthereumTx.AsMessage(s.ethSigner, baseFee)
	s.Require().NoError(err)
	evm := s.app.EvmKeeper.NewEVM(s.ctx, msg, cfg, nil, s.stateDB)
	params := s.app.EvmKeeper.GetParams(s.ctx)
	active := params.GetActivePrecompilesAddrs()
	pm := s.app.EvmKeeper.Precompiles(active...)
	s.Require().NoError(vm.ValidatePrecompiles(pm, active))
	evm.WithPrecompiles(pm, active)

	bal := func(a common.Address) *big.Int {
		return s.app.BankKeeper.GetBalance(s.ctx, a.Bytes(), utils.BaseDenom).Amount.BigInt()
	}
	supply0 := s.app.BankKeeper.GetSupply(s.ctx, utils.BaseDenom).Amount.BigInt()
	p0 := bal(payout)
	// top-level frame, as evm.Call does it: read the signer's balance, move the transaction value to the called address
	to := caller
	if !sc.ViaCaller {
		to = contractAddr
	}
	if s.stateDB.GetBalance(origin).Cmp(big.NewInt(sc.Value)) < 0 {
		return "scenario: insufficient balance"
	}
	s.stateDB.SubBalance(origin, big.NewInt(sc.Value))
	s.stateDB.AddBalance(to, big.NewInt(sc.Value))
	snap := s.stateDB.Snapshot() // evm.Call snapshots on entering the frame that makes the precompile call
	if _, err := s.precompile.Run(evm, contract, false); err != nil {
		return "scenario: precompile call failed: " + err.Error()
	}
	if sc.Revert {
		s.stateDB.RevertToSnapshot(snap) // the frame fails after the precompile call returned (caught by its parent)
	}
	if err := s.stateDB.Commit(); err != nil {
		return "scenario: commit failed: " + err.Error()
	}
	if sc.Revert {
		// C05: a reverted frame leaves no trace: the native message must still find the same amount to pay
		fork2, _ := s.ctx.CacheContext()
		again, err := native(fork2)
		if err != nil {
			return "the withdrawal made inside the reverted frame persists: the native message now fails: " + err.Error()
		}
		if again.String() != paidCoins.String() {
			return fmt.Sprintf("the withdrawal made inside the reverted frame persists: the native message now pays %s instead of %s", again, paidCoins)
		}
		return ""
	}
	supply1 := s.app.BankKeeper.GetSupply(s.ctx, utils.BaseDenom).Amount.BigInt()
	if supply0.Cmp(supply1) != 0 {
		return fmt.Sprintf("total supply of the native coin moved by %s in one EVM transaction (the distribution module paid %s)", new(big.Int).Sub(supply1, supply0), paid)
	}
	want := new(big.Int).Add(p0, paid)
	if payout == origin {
		want.Sub(want, big.NewInt(sc.Value))
	}
	if bal(payout).Cmp(want) != 0 {
		return fmt.Sprintf("credited account's bank balance is %s, expected %s (before %s, paid %s)", bal(payout), want, p0, paid)
	}
	return ""
}

func (s *PrecompileTestSuite) TestVerifReplayDistributionPrecompile() {
	raw, err := os.ReadFile(os.Getenv("VERIF_REPLAY_IN"))
	if err != nil {
		s.T().Skip("no replay request")
	}
	var req dpReq
	s.Require().NoError(json.Unmarshal(raw, &req))
	known := map[string]bool{}
	for _, k := range req.KnownIDs {
		known[k] = true
	}
	scenarios := []dpScenario{
		{"", "signer withdraws rewards directly", "rewards", false, 0, false, false},
		{"", "signer withdraws rewards through a contract, no value sent", "rewards", true, 0, false, false},
		{"F5-Rewards", "signer sends 1 to a contract that withdraws the signer's rewards", "rewards", true, 1, false, false},
		{"F5-Rewards", "signer withdraws rewards directly, withdraw address is a third account", "rewards", false, 0, true, false},
		{"", "validator withdraws commission directly, no value sent", "commission", false, 0, false, false},
		{"F5-Commission", "validator sends 1 to a contract that withdraws the validator's commission", "commission", true, 1, false, false},
		{"F6-Rewards", "a contract withdraws the signer's rewards in a call frame that then reverts", "rewards", true, 0, false, true},
	}
	out := dpOut{Verdict: "NOT-REPRODUCED", Bound: fmt.Sprintf("%d whole-transaction scenarios of distribution.withdrawDelegatorRewards / withdrawValidatorCommission (who calls x transaction value x withdraw address)", len(scenarios))}
	var firstKnown *dpOut
	unknown := false
	for _, sc := range scenarios {
		if req.Property != "" && !((req.Property == "C05" && sc.Revert) || (req.Property == "C02" && !sc.Revert)) {
			continue // frame-revert scenarios test C05, the others C02; no scenario speaks about another property
		}
		out.Cases++
		bad := s.dpRun(sc)
		if bad == "" {
			out.Results = append(out.Results, sc.Name+": holds")
			continue
		}
		out.Results = append(out.Results, sc.Name+": "+bad)
		if strings.HasPrefix(bad, "scenario:") {
			continue // the scenario could not be set up or the call was refused: nothing to judge
		}
		hit := dpOut{Verdict: "REPRODUCED", Input: sc, Detail: bad}
		if sc.ID != "" && known[sc.ID] {
			hit.KnownID = sc.ID
			if firstKnown == nil {
				firstKnown = &hit
			}
			continue
		}
		out.Verdict, out.Input, out.Detail = hit.Verdict, hit.Input, hit.Detail
		unknown = true
		break
	}
	if !unknown && firstKnown != nil {
		out.Verdict, out.Input, out.Detail, out.KnownID = firstKnown.Verdict, firstKnown.Input, firstKnown.Detail, firstKnown.KnownID
	}
	js, _ := json.MarshalIndent(out, "", " ")
	s.Require().NoError(os.WriteFile(os.Getenv("VERIF_REPLAY_OUT"), js, 0o644))
}
