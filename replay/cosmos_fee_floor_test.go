package evm_test

// Replay driver for finding T1 (C07, Cosmos route): with a base fee below the network minimum gas price (possible after governance raised
// MinGasPrice, on the first EIP-1559 block, or with a fractional MinGasPrice) a Cosmos transaction carrying
// ExtensionOptionDynamicFeeTx passes MinGasPriceDecorator on its DECLARED fee and is charged the dynamic fee checker's EFFECTIVE fee
// min(tip + baseFee, feeCap) x gas, which is below gas x MinGasPrice.
// Run: copy to app/ante/evm/zz_verif_replay_test.go (or use -overlay) and
//   go test -count=1 -run '^TestVerifReplayCosmosFeeFloor$' ./app/ante/evm/

import (
	"encoding/json"
	"fmt"
	"os"
	"testing"

	sdkmath "cosmossdk.io/math"
	codectypes "github.com/cosmos/cosmos-sdk/codec/types"
	sdk "github.com/cosmos/cosmos-sdk/types"
	authtx "github.com/cosmos/cosmos-sdk/x/auth/tx"
	authtypes "github.com/cosmos/cosmos-sdk/x/auth/types"
	banktypes "github.com/cosmos/cosmos-sdk/x/bank/types"
	"github.com/stretchr/testify/require"

	cosmosante "github.com/haqq-network/haqq/app/ante/cosmos"
	evmante "github.com/haqq-network/haqq/app/ante/evm"
	"github.com/haqq-network/haqq/testutil"
	utiltx "github.com/haqq-network/haqq/testutil/tx"
	haqqtypes "github.com/haqq-network/haqq/types"
)

func TestVerifReplayCosmosFeeFloor(t *testing.T) {
	raw, err0 := os.ReadFile(os.Getenv("VERIF_REPLAY_IN"))
	if err0 != nil {
		t.Skip("no replay request")
	}
	var req struct {
		KnownIDs []string `json:"known_ids"`
	}
	require.NoError(t, json.Unmarshal(raw, &req))

	const gasLimit = uint64(200_000)
	suite := &AnteTestSuite{enableFeemarket: true, enableLondonHF: true}
	suite.SetT(t)
	suite.SetupTest()
	ctx := suite.ctx.WithIsCheckTx(false)
	app := suite.app
	evmParams := app.EvmKeeper.GetParams(ctx)
	denom := evmParams.EvmDenom
	ethCfg := evmParams.ChainConfig.EthereumConfig(app.EvmKeeper.ChainID())
	baseFee := app.EvmKeeper.GetBaseFee(ctx, ethCfg)
	require.NotNil(t, baseFee)
	require.Equal(t, 1, baseFee.Sign())

	// governance raises the network minimum gas price to ten times the current base fee; the base fee follows only at the next
	// block that is below its gas target
	fmParams := app.FeeMarketKeeper.GetParams(ctx)
	fmParams.MinGasPrice = sdk.NewDecFromBigInt(baseFee).MulInt64(10)
	require.NoError(t, app.FeeMarketKeeper.SetParams(ctx, fmParams))
	minGasPrice := app.FeeMarketKeeper.GetParams(ctx).MinGasPrice
	floor := minGasPrice.MulInt(sdkmath.NewIntFromUint64(gasLimit)).Ceil().RoundInt()

	payer, _ := utiltx.NewAccAddressAndKey()
	require.NoError(t, testutil.FundAccount(ctx, app.BankKeeper, payer, sdk.NewCoins(sdk.NewCoin(denom, sdkmath.NewIntWithDecimal(1, 20)))))
	app.AccountKeeper.SetAccount(ctx, app.AccountKeeper.NewAccountWithAddress(ctx, payer))
	collector := app.AccountKeeper.GetModuleAddress(authtypes.FeeCollectorName)

	// declared fee == the floor, tip cap 0
	txBuilder := suite.clientCtx.TxConfig.NewTxBuilder().(authtx.ExtensionOptionsTxBuilder)
	require.NoError(t, txBuilder.SetMsgs(banktypes.NewMsgSend(payer, payer, sdk.NewCoins(sdk.NewCoin(denom, sdkmath.OneInt())))))
	txBuilder.SetGasLimit(gasLimit)
	txBuilder.SetFeeAmount(sdk.NewCoins(sdk.NewCoin(denom, floor)))
	option, err := codectypes.NewAnyWithValue(&haqqtypes.ExtensionOptionDynamicFeeTx{MaxPriorityPrice: sdkmath.ZeroInt()})
	require.NoError(t, err)
	txBuilder.SetExtensionOptions(option)
	tx := txBuilder.GetTx()

	feeDecorators := sdk.ChainAnteDecorators(
		cosmosante.NewMinGasPriceDecorator(app.FeeMarketKeeper, app.EvmKeeper),
		cosmosante.NewDeductFeeDecorator(
			app.AccountKeeper, app.BankKeeper, app.DistrKeeper, app.FeeGrantKeeper, app.StakingKeeper,
			evmante.NewDynamicFeeChecker(app.EvmKeeper),
		),
	)
	payerBefore := app.BankKeeper.GetBalance(ctx, payer, denom).Amount
	collectorBefore := app.BankKeeper.GetBalance(ctx, collector, denom).Amount
	_, err = feeDecorators(ctx, tx, false)
	paid := payerBefore.Sub(app.BankKeeper.GetBalance(ctx, payer, denom).Amount)
	got := app.BankKeeper.GetBalance(ctx, collector, denom).Amount.Sub(collectorBefore)

	res := map[string]interface{}{"verdict": "NOT-REPRODUCED", "cases": 1,
		"bound": "one Cosmos transaction (gas 200000, declared fee == gas x MinGasPrice, ExtensionOptionDynamicFeeTx with tip cap 0) through MinGasPriceDecorator + DeductFeeDecorator(NewDynamicFeeChecker) of the real app in DeliverTx mode, MinGasPrice == 10 x base fee"}
	if err == nil && paid.LT(floor) {
		res["verdict"] = "REPRODUCED"
		res["input"] = map[string]string{"id": "T1", "gas": fmt.Sprint(gasLimit), "base_fee": baseFee.String(), "min_gas_price": minGasPrice.String(),
			"declared_fee": floor.String() + denom, "tip_cap": "0"}
		res["detail"] = fmt.Sprintf("accepted; payer paid %s, fee collector received %s, gas x MinGasPrice = %s", paid, got, floor)
		for _, k := range req.KnownIDs {
			if k == "T1" {
				res["known_id"] = "T1"
			}
		}
	} else {
		res["detail"] = fmt.Sprintf("err=%v paid=%s floor=%s", err, paid, floor)
	}
	js, _ := json.MarshalIndent(res, "", " ")
	require.NoError(t, os.WriteFile(os.Getenv("VERIF_REPLAY_OUT"), js, 0o644))
}
