package keeper_test

// Replay driver for x/feemarket/keeper (C17). Injected with `go test -overlay`; never written to /repo.
// Calls the real CalculateBaseFee / EndBlock and compares with an independent oracle taken from the
// property statement.

import (
	"encoding/json"
	"fmt"
	"math/big"
	"math/rand"
	"os"

	abci "github.com/cometbft/cometbft/abci/types"
	tmproto "github.com/cometbft/cometbft/proto/tendermint/types"
	sdk "github.com/cosmos/cosmos-sdk/types"
)

type vrCase struct {
	NoBaseFee    bool   `json:"no_base_fee"`
	Den          uint32 `json:"den"`
	Elast        uint32 `json:"elasticity"`
	EnableHeight int64  `json:"enable_height"`
	Height       int64  `json:"height"`
	BaseFee      string `json:"base_fee"`
	MinGasPrice  string `json:"min_gas_price_scaled"` // Dec scaled by 1e18, as integer
	HasCons      bool   `json:"has_cons_params"`
	HasBlock     bool   `json:"has_block_params"`
	MaxGas       int64  `json:"max_gas"`
	Gas          uint64 `json:"gas"`
}

type vrReq struct {
	Mode   string                     `json:"mode"`
	Model  map[string]json.RawMessage `json:"model"`
	Input  json.RawMessage            `json:"input"`
	Seed   int64                      `json:"seed"`
	Budget int                        `json:"budget"`
}

type vrOut struct {
	Verdict string      `json:"verdict"`
	Input   interface{} `json:"input,omitempty"`
	Detail  interface{} `json:"detail,omitempty"`
	Cases   int         `json:"cases"`
	Bound   string      `json:"bound,omitempty"`
}

var vrU64Max = new(big.Int).SetUint64(^uint64(0))

func vrOracle(c vrCase) (res *big.Int, defined bool) {
	b, _ := new(big.Int).SetString(c.BaseFee, 10)
	mgp, _ := new(big.Int).SetString(c.MinGasPrice, 10)
	if c.Den == 0 || c.Elast == 0 || b.Sign() < 0 || mgp.Sign() < 0 {
		return nil, false // outside the validated parameter space
	}
	if c.NoBaseFee || c.Height < c.EnableHeight {
		return nil, true
	}
	if c.Height == c.EnableHeight {
		return b, true
	}
	L := new(big.Int).Set(vrU64Max)
	if c.HasCons && c.HasBlock && c.MaxGas > -1 {
		L = big.NewInt(c.MaxGas)
	}
	T := new(big.Int).Div(L, big.NewInt(int64(c.Elast)))
	if T.Cmp(vrU64Max) > 0 {
		return nil, true
	}
	g := new(big.Int).SetUint64(c.Gas)
	den := big.NewInt(int64(c.Den))
	if g.Cmp(T) == 0 || T.Sign() == 0 {
		return b, true
	}
	if g.Cmp(T) > 0 {
		d := new(big.Int).Sub(g, T)
		d.Mul(d, b).Div(d, T).Div(d, den)
		if d.Cmp(big.NewInt(1)) < 0 {
			d = big.NewInt(1)
		}
		return d.Add(d, b), true
	}
	d := new(big.Int).Sub(T, g)
	d.Mul(d, b).Div(d, T).Div(d, den)
	r := new(big.Int).Sub(b, d)
	floor := new(big.Int).Quo(mgp, new(big.Int).Exp(big.NewInt(10), big.NewInt(18), nil))
	if r.Cmp(floor) < 0 {
		r = floor
	}
	return r, true
}

func (suite *KeeperTestSuite) vrRun(c vrCase) (bad bool, detail string) {
	want, defined := vrOracle(c)
	if !defined {
		return false, ""
	}
	b, _ := new(big.Int).SetString(c.BaseFee, 10)
	mgp, _ := new(big.Int).SetString(c.MinGasPrice, 10)
	k := suite.app.FeeMarketKeeper
	params := k.GetParams(suite.ctx)
	params.NoBaseFee = c.NoBaseFee
	params.BaseFeeChangeDenominator = c.Den
	params.ElasticityMultiplier = c.Elast
	params.EnableHeight = c.EnableHeight
	params.BaseFee = sdk.NewIntFromBigInt(b)
	params.MinGasPrice = sdk.NewDecFromBigIntWithPrec(mgp, 18)
	if err := k.SetParams(suite.ctx, params); err != nil {
		return false, ""
	}
	ctx := suite.ctx.WithBlockHeight(c.Height)
	if c.HasCons {
		cp := &tmproto.ConsensusParams{}
		if c.HasBlock {
			cp.Block = &tmproto.BlockParams{MaxGas: c.MaxGas, MaxBytes: 10}
		}
		ctx = ctx.WithConsensusParams(cp)
	} else {
		ctx = ctx.WithConsensusParams(nil)
	}
	k.SetBlockGasWanted(ctx, c.Gas)
	var got *big.Int
	panicked := ""
	func() {
		defer func() {
			if r := recover(); r != nil {
				panicked = fmt.Sprint(r)
			}
		}()
		got = k.CalculateBaseFee(ctx)
	}()
	if panicked != "" {
		return true, "CalculateBaseFee panicked: " + panicked
	}
	if (got == nil) != (want == nil) || (got != nil && got.Cmp(want) != 0) {
		return true, fmt.Sprintf("CalculateBaseFee = %v, EIP-1559 formula of the property = %v", got, want)
	}
	after := k.GetParams(ctx)
	if got != nil && after.BaseFee.BigInt() == got {
		return true, "result aliases the stored parameters"
	}
	return false, ""
}

func vrSexpInt(raw json.RawMessage) (*big.Int, bool) {
	var s string
	if json.Unmarshal(raw, &s) == nil {
		v, ok := new(big.Int).SetString(s, 10)
		return v, ok
	}
	var l []json.RawMessage
	if json.Unmarshal(raw, &l) == nil && len(l) == 2 {
		var op string
		if json.Unmarshal(l[0], &op) == nil && op == "-" {
			if v, ok := vrSexpInt(l[1]); ok {
				return v.Neg(v), true
			}
		}
	}
	return nil, false
}

func (suite *KeeperTestSuite) TestVerifReplayFeemarket() {
	var req vrReq
	raw, err := os.ReadFile(os.Getenv("VERIF_REPLAY_IN"))
	if err != nil {
		suite.T().Skip("no replay request")
	}
	suite.Require().NoError(json.Unmarshal(raw, &req))
	suite.SetupTest()
	out := vrOut{Verdict: "NOT-REPRODUCED"}
	try := func(c vrCase) bool {
		out.Cases++
		if bad, d := suite.vrRun(c); bad {
			out.Verdict, out.Input, out.Detail = "REPRODUCED", c, d
			return true
		}
		return false
	}
	done := false
	var seeds []vrCase
	switch req.Mode {
	case "input":
		var c vrCase
		suite.Require().NoError(json.Unmarshal(req.Input, &c))
		done = try(c)
	case "model":
		// decode what the model fixes: fm_params@0 = (mk_Params NoBaseFee Den Elast EnableHeight BaseFee MinGasPrice MinGasMultiplier)
		c := vrCase{Den: 8, Elast: 2, BaseFee: "1000000000", MinGasPrice: "0", HasCons: true, HasBlock: true, MaxGas: 100, Height: 1}
		if p, ok := req.Model["fm_params@0"]; ok {
			var l []json.RawMessage
			if json.Unmarshal(p, &l) == nil && len(l) == 8 {
				var nb string
				json.Unmarshal(l[1], &nb)
				c.NoBaseFee = nb == "true"
				if v, ok := vrSexpInt(l[2]); ok && v.IsUint64() {
					c.Den = uint32(v.Uint64())
				}
				if v, ok := vrSexpInt(l[3]); ok && v.IsUint64() {
					c.Elast = uint32(v.Uint64())
				}
				if v, ok := vrSexpInt(l[4]); ok && v.IsInt64() {
					c.EnableHeight = v.Int64()
				}
				if v, ok := vrSexpInt(l[5]); ok {
					c.BaseFee = v.String()
				}
				if v, ok := vrSexpInt(l[6]); ok {
					c.MinGasPrice = v.String()
				}
			}
		}
		if g, ok := req.Model["fm_block_gas@0"]; ok {
			if v, ok := vrSexpInt(g); ok && v.IsUint64() {
				c.Gas = v.Uint64()
			}
		}
		// the model does not name height / consensus params as constants: vary them around the decoded point
		for _, h := range []int64{c.EnableHeight - 1, c.EnableHeight, c.EnableHeight + 1, c.EnableHeight + 7} {
			for _, mg := range []int64{-1, 0, 1, 2, 100, int64(c.Gas % (1 << 62)), int64(c.Gas%(1<<62)) * 2} {
				cc := c
				cc.Height, cc.MaxGas = h, mg
				seeds = append(seeds, cc)
			}
		}
		for _, s := range seeds {
			if done = try(s); done {
				break
			}
		}
		fallthrough
	case "sweep":
		if done {
			break
		}
		out.Bound = "elasticity in {1,2,3}, denominator in {1,8}, MaxGas in {none,-1,0,1,2,100,2^62}, gas in 9 values up to 2^64-1, base fee in {0,1,7,1e9}, 3 min gas prices, 3 heights, NoBaseFee in {false,true}; plus seeded random cases"
	sweep:
		for _, el := range []uint32{1, 2, 3} {
			for _, den := range []uint32{1, 8} {
				for mi, mg := range []int64{0, -1, 0, 1, 2, 100, 1 << 62} {
					for _, g := range []uint64{0, 1, 2, 49, 50, 51, 100, 1 << 63, ^uint64(0)} {
						for _, bf := range []string{"0", "1", "7", "1000000000"} {
							for _, mgp := range []string{"0", "1500000000000000000", "1000000000500000000000000000"} {
								for _, dh := range []int64{-1, 0, 1} {
									for _, nb := range []bool{false, true} {
										c := vrCase{NoBaseFee: nb, Den: den, Elast: el, EnableHeight: 5, Height: 5 + dh, BaseFee: bf, MinGasPrice: mgp,
											HasCons: mi != 0, HasBlock: mi != 0, MaxGas: mg, Gas: g}
										if try(c) {
											break sweep
										}
									}
								}
							}
						}
					}
				}
			}
		}
		if out.Verdict != "REPRODUCED" {
			rng := rand.New(rand.NewSource(req.Seed))
			n := req.Budget / 10
			for i := 0; i < n; i++ {
				c := vrCase{NoBaseFee: rng.Intn(8) == 0, Den: uint32(1 + rng.Intn(50)), Elast: uint32(1 + rng.Intn(5)), EnableHeight: int64(rng.Intn(3)),
					Height: int64(rng.Intn(5)), BaseFee: new(big.Int).Rand(rng, new(big.Int).Lsh(big.NewInt(1), uint(1+rng.Intn(80)))).String(),
					MinGasPrice: new(big.Int).Rand(rng, new(big.Int).Lsh(big.NewInt(1), uint(1+rng.Intn(100)))).String(),
					HasCons:     rng.Intn(10) != 0, HasBlock: rng.Intn(10) != 0, MaxGas: rng.Int63n(1<<uint(1+rng.Intn(62))) - 1, Gas: rng.Uint64() >> uint(rng.Intn(64))}
				if try(c) {
					break
				}
			}
		}
	}
	js, _ := json.MarshalIndent(out, "", " ")
	suite.Require().NoError(os.WriteFile(os.Getenv("VERIF_REPLAY_OUT"), js, 0o644))
	_ = abci.RequestBeginBlock{}
}
