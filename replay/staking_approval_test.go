package staking_test

// Replay driver for finding L1 (C04, approval side). Injected with `go test -overlay`; never written to the repository.
// increaseAllowance / decreaseAllowance of the staking precompile called with amount == type(uint256).max on a LIMITED grant
// dereference the nil *sdk.Coin that CheckApprovalArgs returns for the MaxUint256 sentinel: panic instead of an error.

import (
	"encoding/json"
	"fmt"
	"os"

	"math/big"

	"github.com/ethereum/go-ethereum/accounts/abi"

	"github.com/haqq-network/haqq/precompiles/authorization"
	"github.com/haqq-network/haqq/precompiles/staking"
	utiltx "github.com/haqq-network/haqq/testutil/tx"
)

func (s *PrecompileTestSuite) TestVerifReplayStakingApproval() {
	if _, err := os.ReadFile(os.Getenv("VERIF_REPLAY_IN")); err != nil {
		s.T().Skip("no replay request")
	}
	out := map[string]interface{}{"verdict": "NOT-REPRODUCED", "cases": 0,
		"bound": "increaseAllowance / decreaseAllowance with amounts {1, 50, 100, 101, MaxUint256} on a limited grant of 100 for MsgDelegate"}
	amounts := []*big.Int{big.NewInt(1), big.NewInt(50), big.NewInt(100), big.NewInt(101), abi.MaxUint256}
	cases := 0
	for _, name := range []string{authorization.IncreaseAllowanceMethod, authorization.DecreaseAllowanceMethod} {
		for _, amt := range amounts {
			cases++
			s.SetupTest()
			approve := s.precompile.Methods[authorization.ApproveMethod]
			method := s.precompile.Methods[name]
			grantee := utiltx.GenerateAddress()
			_, err := s.precompile.Approve(s.ctx, s.address, s.stateDB, &approve, []interface{}{grantee, big.NewInt(100), []string{staking.DelegateMsg}})
			s.Require().NoError(err)
			args := []interface{}{grantee, amt, []string{staking.DelegateMsg}}
			var rec interface{}
			func() {
				defer func() { rec = recover() }()
				if name == authorization.IncreaseAllowanceMethod {
					_, err = s.precompile.IncreaseAllowance(s.ctx, s.address, s.stateDB, &method, args)
				} else {
					_, err = s.precompile.DecreaseAllowance(s.ctx, s.address, s.stateDB, &method, args)
				}
			}()
			if rec != nil {
				out["verdict"], out["input"], out["detail"] = "REPRODUCED", map[string]string{"method": name, "amount": amt.String()},
					fmt.Sprintf("%s(grantee, %s, [MsgDelegate]) on a limited grant panics instead of returning an error: %v", name, amt, rec)
			}
		}
	}
	out["cases"] = cases
	js, _ := json.MarshalIndent(out, "", " ")
	s.Require().NoError(os.WriteFile(os.Getenv("VERIF_REPLAY_OUT"), js, 0o644))
}
